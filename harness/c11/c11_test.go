// C11 — a committed weighted trie is recoverable; garbage collection keeps live nodes.
package c11

import (
	"bytes"
	"fmt"
	"testing"

	"pgregory.net/rapid"

	"verif/harness/internal/ev"
	"verif/harness/internal/gen"
	"verif/harness/internal/memkv"
	"verif/harness/internal/refwmpt"
	"verif/harness/internal/wmkit"
)

const (
	findShared  = wmkit.FindShared
	findDirtyGC = wmkit.FindDirtyGC
	findRootRd  = wmkit.FindRootRd
)

func TestMain(m *testing.M) {
	ev.SetMeta(ev.Meta{
		Property: "C11", Level: "fault_enumeration",
		Rule: "rapid state machine over a weighted trie on a logging in-memory storage adapter: update, delete, delete-and-re-add of identical content, rewrite with the same value, commit at any collapse level with the batch write as a separate step, 1..3 garbage-collection passes in any position, Root() reads at any time (also while dirty), reload. " +
			"Oracle: 'durable' = model at the last trie commit whose batch was written. After every storage-affecting step a trie reopened from (durable root, durable weight) on the same storage must pass the full observation against the durable model (weight, root vs internal/refwmpt, owner + verifying proof for the first/last block of every key), and the harness's own walk of the raw records from the durable root must find every referenced hash. " +
			"Crash points are ENUMERATED: for every prefix of the storage operation log of a history (single put/delete or a whole batch = one atomic operation) the storage is rebuilt from the prefix and the last durable root whose batch lies inside the prefix must resolve completely with the model content. " +
			"One evaluation = one history or one (history, log prefix). Also: updates back to an earlier value, removals of absent keys, the three spellings of a removal, and the live trie itself is observed whenever it is clean and its batch written. Non-trivial = >=2 commits, >=2 GC passes after the last change, and a delete-and-recreate of a node with identical hash inside one commit window or a root read while dirty; distinct = distinct (step log, prefix).",
		Assumptions: []string{"storage is internal/memkv: single operations and batches are atomic and totally ordered", "a trie commit whose batch has not been written yet is not durable", "the trie is not mutated between a commit and the write of its batch (mutations through collapsed nodes need the records in storage)"},
	})
	ev.Main(m)
}

type durable struct {
	root   []byte
	weight uint64
	model  map[string]refwmpt.Entry
	logLen int // storage log length right after the batch was written
}

func copyModel(m map[string]refwmpt.Entry) map[string]refwmpt.Entry {
	out := make(map[string]refwmpt.Entry, len(m))
	for k, v := range m {
		out[k] = v
	}
	return out
}

// checkDurable: the last durable root must be fully recoverable from db.
func checkDurable(db *memkv.Store, d *durable, fail func(string, ...any), when string) {
	if d == nil {
		return
	}
	w := refwmpt.WalkFrom(d.root, db.Getter())
	if len(w.Missing) > 0 || len(w.Problems) > 0 {
		fail("%s: durable root %x does not resolve from storage: missing %v problems %v", when, d.root, w.Missing, w.Problems)
	}
	es := wmkit.Entries(d.model)
	got := refwmpt.Sorted(w.Entries)
	if len(got) != len(es) {
		fail("%s: durable root resolves to %d entries, model has %d", when, len(got), len(es))
	}
	for i := range es {
		if !bytes.Equal(es[i].Key, got[i].Key) || !bytes.Equal(es[i].Value, got[i].Value) || es[i].Weight != got[i].Weight {
			fail("%s: durable content differs at key %x", when, es[i].Key)
		}
	}
	wmkit.ObserveTrie(wmkit.Reopened(db, d.root, d.weight), d.model, nil, fail, when+": reopened trie")
}

func run(rt *rapid.T, disciplined bool) {
	db := memkv.New()
	var m *wmkit.Machine
	m = wmkit.New(db, func(f string, a ...any) {
		rt.Fatalf("%s\nhistory: %s", fmt.Sprintf(f, a...), m.History())
	})
	pool := wmkit.GenKeyPool(rt, gen.Uniform(rt, 2, 8, "npool"))
	unique := wmkit.UniqueValues(rt)
	counter := 0
	var dur *durable
	var durables []durable
	var pending interface{ Commit(bool) error }
	var pendingModel map[string]refwmpt.Entry
	unwritten := false
	commits, gcAfterChange, recreates, rootReadDirty, gcDirty, migrations := 0, 0, 0, 0, 0, 0
	steps := gen.Uniform(rt, 6, 36, "steps")
	for i := 0; i < steps; i++ {
		k := gen.Pct(rt, "op")
		if unwritten && k < 57 {
			// the trie was collapsed by the commit: mutating it needs the nodes in storage, so callers write the batch first
			if err := pending.Commit(true); err != nil {
				rt.Fatalf("batch: %v", err)
			}
			m.Logf("batch written")
			unwritten = false
			dur = &durable{append([]byte(nil), m.T.Root()...), m.T.Weight(), pendingModel, db.LogLen()}
			durables = append(durables, *dur)
		}
		clean := !m.Dirty && !unwritten
		switch {
		case k < 30:
			if k >= 8 && k < 12 && m.Resurrect(rt, "resurrect") {
				recreates++
				gcAfterChange = 0
				continue
			}
			if k < 5 && m.Revert(rt, "revert") {
				gcAfterChange = 0
				continue
			}
			if k >= 12 && k < 16 && unique && m.Migrate(rt, wmkit.GenValue(rt, 60, &counter, unique), "migrate") {
				migrations++
				gcAfterChange = 0
				continue
			}
			if k >= 5 && k < 8 {
				// removal of a key that is not there: reports "not found" and changes nothing
				if key := gen.Pick(rt, pool, "absent"); m.Model[string(key)].Key == nil {
					m.Delete(key)
					continue
				}
			}
			ki := gen.Uniform(rt, 0, len(pool)-1, "ki")
			m.Update(pool[ki], wmkit.GenValue(rt, ki, &counter, unique))
			gcAfterChange = 0
		case k < 40:
			es := wmkit.Entries(m.Model)
			if len(es) == 0 {
				continue
			}
			m.Delete(gen.Pick(rt, es, "del").Key)
			gcAfterChange = 0
		case k < 52:
			// delete and re-add identical content (same window unless a commit is drawn in between)
			es := wmkit.Entries(m.Model)
			if len(es) == 0 {
				continue
			}
			e := gen.Pick(rt, es, "recreate")
			m.Logf("(delete and re-add identical)")
			m.Delete(e.Key)
			if gen.Chance(rt, 40, "commitbetween") && !unwritten {
				m.Commit(gen.Uniform(rt, 0, 3, "lvl"))
				commits++
				dur = &durable{append([]byte(nil), m.T.Root()...), m.T.Weight(), copyModel(m.Model), db.LogLen()}
				durables = append(durables, *dur)
				// sometimes a collection pass runs before the content comes back (the dropped nodes reach the second stage)
				for j := gen.Uniform(rt, 0, 2, "gcbetween"); j > 0; j-- {
					m.GC()
				}
			}
			m.Rewrite(e)
			recreates++
			gcAfterChange = 0
		case k < 57:
			es := wmkit.Entries(m.Model)
			if len(es) == 0 {
				continue
			}
			e := gen.Pick(rt, es, "same")
			m.Logf("(rewrite same value)")
			m.Rewrite(e)
		case k < 72 && !unwritten:
			pending = m.CommitTrie(gen.Pick(rt, []int{0, 0, 1, 2, 3, 64}, "level"))
			pendingModel = copyModel(m.Model)
			unwritten = true
			commits++
			if gen.Chance(rt, 70, "writenow") {
				if err := pending.Commit(true); err != nil {
					rt.Fatalf("batch: %v", err)
				}
				m.Logf("batch written")
				unwritten = false
				dur = &durable{append([]byte(nil), m.T.Root()...), m.T.Weight(), pendingModel, db.LogLen()}
				durables = append(durables, *dur)
			}
		case k < 78 && unwritten:
			if err := pending.Commit(true); err != nil {
				rt.Fatalf("batch: %v", err)
			}
			m.Logf("batch written")
			unwritten = false
			if !m.Dirty {
				dur = &durable{append([]byte(nil), m.T.Root()...), m.T.Weight(), pendingModel, db.LogLen()}
				durables = append(durables, *dur)
			} else {
				// the trie moved on before the batch was written: the committed state is still what the batch holds
				dur = nil
				m.Logf("(batch written after further changes: durable root unknown to the harness until the next commit)")
			}
		case k < 90:
			if disciplined && !clean {
				continue
			}
			if ev.Known(findDirtyGC) && !clean {
				ev.Excluded(findDirtyGC + ": GC is drawn only when the trie is clean and its batch written")
				continue
			}
			if !clean {
				gcDirty++
			}
			n := gen.Uniform(rt, 1, 3, "ngc")
			for j := 0; j < n; j++ {
				m.GC()
				gcAfterChange++
			}
		case k < 95:
			if m.Dirty {
				if disciplined {
					continue
				}
				if ev.Known(findRootRd) {
					ev.Excluded(findRootRd + ": Root() is not read while the trie is dirty")
					continue
				}
				rootReadDirty++
			}
			m.Logf("root-read")
			m.T.Root()
			if clean {
				// "identical to the live one": the live trie itself must present the model as well
				m.Logf("observe-live")
				wmkit.ObserveTrie(m.T, m.Model, nil, m.Fail, "live trie (clean, batch written)")
			}
		default:
			if clean {
				m.Reload()
			}
		}
		checkDurable(db, dur, m.Fail, fmt.Sprintf("after step %d", i))
	}
	// close the history: commit, write, two GC passes, final check
	if unwritten {
		if err := pending.Commit(true); err != nil {
			rt.Fatalf("batch: %v", err)
		}
		m.Logf("batch written")
		unwritten = false
	}
	m.Commit(gen.Pick(rt, []int{0, 1, 64}, "finallevel"))
	commits++
	dur = &durable{append([]byte(nil), m.T.Root()...), m.T.Weight(), copyModel(m.Model), db.LogLen()}
	durables = append(durables, *dur)
	for j := 0; j < 2; j++ {
		m.GC()
		gcAfterChange++
		checkDurable(db, dur, m.Fail, fmt.Sprintf("closing gc %d", j))
	}
	// crash enumeration: every prefix of the storage log
	log := append([]memkv.Op(nil), db.Log...)
	prefixes := 0
	for n := 0; n <= len(log); n++ {
		var d *durable
		for di := range durables {
			if durables[di].logLen <= n {
				d = &durables[di]
			}
		}
		if d == nil {
			continue
		}
		// a later commit whose batch is inside the prefix supersedes; durables are in log order
		pdb := memkv.FromLog(log[:n])
		checkDurable(pdb, d, m.Fail, fmt.Sprintf("crash after %d of %d storage operations", n, len(log)))
		prefixes++
		ev.Case(fmt.Sprintf("%s|%d", m.History(), n), commits >= 2 && recreates > 0, "crash-prefix")
	}
	nt := commits >= 2 && gcAfterChange >= 2 && (recreates > 0 || rootReadDirty > 0)
	cls := []string{map[bool]string{true: "disciplined", false: "any-position"}[disciplined], map[bool]string{true: "unique-values", false: "shared-values"}[unique]}
	add := func(b bool, s string) {
		if b {
			cls = append(cls, s)
		}
	}
	add(recreates > 0, "recreate-identical")
	add(rootReadDirty > 0, "root-read-while-dirty")
	add(gcDirty > 0, "gc-while-dirty")
	add(migrations > 0, "value-moved-between-keys")
	ev.Case(m.History(), nt, cls...)
	if nt && ev.WantSample() {
		ev.Sample(map[string]any{"history": m.Log, "storage_ops": len(log), "crash_prefixes_checked": prefixes})
	}
}

func TestDisciplined(t *testing.T) {
	ev.Rapid(t, 1500, 10000)
	rapid.Check(t, func(rt *rapid.T) { run(rt, true) })
}

func TestAnyPosition(t *testing.T) {
	ev.Rapid(t, 1500, 10000)
	rapid.Check(t, func(rt *rapid.T) { run(rt, false) })
}

// A large commit window: thousands of entries are removed and brought back unchanged in one window (every node of the
// committed state is re-created), committed, written, two collection passes - and the trie reopened from the root must
// still resolve completely. 4300..4800 entries give well over 8192 saved nodes in that commit.
func TestLargeRecreate(t *testing.T) {
	ev.Rapid(t, 1, 6)
	rapid.Check(t, func(rt *rapid.T) {
		n := gen.Uniform(rt, 4300, 4800, "n")
		db := memkv.New()
		var m *wmkit.Machine
		m = wmkit.New(db, func(f string, a ...any) { rt.Fatalf("%s (large window of %d entries)", fmt.Sprintf(f, a...), n) })
		keys := make([][]byte, n)
		for i := range keys {
			k := make([]byte, 32)
			x := uint64(i)*0x9e3779b97f4a7c15 + 12345
			for j := range k {
				x ^= x << 13
				x ^= x >> 7
				x ^= x << 17
				k[j] = byte(x)
			}
			keys[i] = k
			m.Update(k, []byte{byte(i), byte(i >> 8), 0x42})
		}
		m.Commit(gen.Pick(rt, []int{0, 1, 64}, "level0"))
		m.GC()
		es := wmkit.Entries(m.Model)
		for _, e := range es {
			m.Delete(e.Key)
		}
		for _, e := range es {
			m.Rewrite(e)
		}
		before := db.LogLen()
		m.Commit(gen.Pick(rt, []int{0, 1, 64}, "level1"))
		m.GC()
		m.GC()
		w := refwmpt.WalkFrom(m.T.Root(), db.Getter())
		if len(w.Missing) > 0 || len(w.Problems) > 0 || len(w.Entries) != n {
			rt.Fatalf("after %d entries were removed and brought back in one window, committed and collected twice: the root resolves %d entries, %d records missing, problems %v", n, len(w.Entries), len(w.Missing), w.Problems)
		}
		re := wmkit.Reopened(db, m.T.Root(), m.T.Weight())
		for _, blk := range []uint64{1, m.T.Weight() / 2, m.T.Weight()} {
			if _, _, err := re.GetBlockProof(blk); err != nil {
				rt.Fatalf("large window of %d entries: reopened trie: GetBlockProof(%d): %v", n, blk, err)
			}
		}
		ev.Case(fmt.Sprintf("large-recreate/%d", n), true, "window-re-creating-thousands-of-nodes")
		ev.Extra("storage_operations_of_the_large_commit", db.LogLen()-before)
	})
}
