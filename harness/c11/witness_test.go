package c11

import (
	"fmt"
	"testing"

	"verif/harness/internal/ev"
	"verif/harness/internal/memkv"
	"verif/harness/internal/refwmpt"
	"verif/harness/internal/wmkit"
)

func key(b0, last byte) []byte {
	k := make([]byte, 32)
	k[0], k[31] = b0, last
	return k
}

// script runs steps on a fresh machine and reports whether the durable root named by the last "mark" resolves at the end.
func script(steps func(m *wmkit.Machine, mark func())) string {
	db := memkv.New()
	var failure string
	var m *wmkit.Machine
	m = wmkit.New(db, func(f string, a ...any) {
		if failure == "" {
			failure = fmt.Sprintf(f, a...)
		}
		panic("stop")
	})
	var dur *durable
	func() {
		defer func() { recover() }()
		steps(m, func() {
			dur = &durable{append([]byte(nil), m.T.Root()...), m.T.Weight(), copyModel(m.Model), db.LogLen()}
		})
		checkDurable(db, dur, m.Fail, "at the end")
	}()
	if failure != "" {
		return m.History() + ": " + failure
	}
	return ""
}

func TestWitnesses(t *testing.T) {
	v := []byte{0, 1, 1, 0}
	ev.Witness(t, "C11-recreated-node-collected", func() string {
		return script(func(m *wmkit.Machine, mark func()) {
			m.Update(key(0, 0), v)
			m.Update(key(0x10, 0), []byte{0, 2, 2, 0})
			m.Commit(0)
			m.Delete(key(0, 0))
			m.Commit(0)
			m.Update(key(0, 0), v) // the first commit's trie again
			m.Commit(0)
			mark()
			m.GC()
			m.GC()
		})
	})
	ev.Witness(t, "C11-collapse-level-branch-not-reported", func() string {
		return script(func(m *wmkit.Machine, mark func()) {
			m.Update(key(0, 0), v)
			m.Update(key(0x10, 0), []byte{0, 2, 2, 0})
			m.Update(key(0, 1), []byte{0, 3, 3, 0})
			m.Commit(0)
			m.GC()
			m.Delete(key(0, 0))
			m.Update(key(0, 0), v)
			m.Commit(2)
			mark()
			m.GC()
			m.GC()
		})
	})
	ev.Witness(t, wmkit.FindShared, func() string {
		return script(func(m *wmkit.Machine, mark func()) {
			m.Update(key(0, 0), []byte{2, 1})
			m.Update(key(0x10, 0), []byte{2, 1}) // same value: one stored value record
			m.Commit(0)
			m.Delete(key(0, 0))
			m.Commit(0)
			mark()
			m.GC()
			m.GC()
		})
	})
	ev.Witness(t, wmkit.FindRootRd, func() string {
		return script(func(m *wmkit.Machine, mark func()) {
			m.Update(key(0, 0), v)
			m.Logf("root-read")
			m.T.Root()
			m.Commit(0)
			mark()
		})
	})
	ev.Witness(t, wmkit.FindDirtyGC, func() string {
		return script(func(m *wmkit.Machine, mark func()) {
			m.Update(key(0, 0), v)
			m.Commit(0)
			mark()
			m.Delete(key(0, 0)) // not committed
			m.GC()
			m.GC()
		})
	})
}

var _ = refwmpt.Empty
