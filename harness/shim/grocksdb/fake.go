// Package grocksdb is a pure-Go in-memory stand-in for the subset of
// github.com/linxGnu/grocksdb used by core/util/mpt_pnodedb.go.
package grocksdb

import (
	"errors"
	"sort"
	"sync"
)

type CompressionType uint

const (
	NoCompression  = CompressionType(0)
	LZ4Compression = CompressionType(4)
)

type Options struct{}
type BlockBasedTableOptions struct{}
type Cache struct{}
type SliceTransform struct{}
type ReadOptions struct{}
type WriteOptions struct{}
type TransactionOptions struct{}
type FlushOptions struct{}

func NewDefaultOptions() *Options                                    { return &Options{} }
func (o *Options) SetCreateIfMissing(bool)                           {}
func (o *Options) SetCompression(CompressionType)                    {}
func (o *Options) SetCreateIfMissingColumnFamilies(bool)             {}
func (o *Options) OptimizeUniversalStyleCompaction(uint64)           {}
func (o *Options) SetAllowMmapReads(bool)                            {}
func (o *Options) SetPrefixExtractor(*SliceTransform)                {}
func (o *Options) SetPlainTableFactory(uint32, int, float64, uint)   {}
func (o *Options) OptimizeForPointLookup(uint64)                     {}
func (o *Options) SetMaxBackgroundJobs(int)                          {}
func (o *Options) SetMaxWriteBufferNumber(int)                       {}
func (o *Options) SetWriteBufferSize(uint64)                         {}
func (o *Options) SetMinWriteBufferNumberToMerge(int)                {}
func (o *Options) IncreaseParallelism(int)                           {}
func (o *Options) SetDbLogDir(string)                                {}
func (o *Options) EnableStatistics()                                 {}
func (o *Options) SetDeleteObsoleteFilesPeriodMicros(uint64)         {}
func (o *Options) SetKeepLogFileNum(uint)                            {}
func (o *Options) SetBlockBasedTableFactory(*BlockBasedTableOptions) {}
func (o *Options) Destroy()                                          {}

func NewFixedPrefixTransform(int) *SliceTransform               { return &SliceTransform{} }
func NewDefaultBlockBasedTableOptions() *BlockBasedTableOptions { return &BlockBasedTableOptions{} }
func (*BlockBasedTableOptions) SetBlockCache(*Cache)            {}
func NewLRUCache(uint64) *Cache                                 { return &Cache{} }
func NewDefaultReadOptions() *ReadOptions                       { return &ReadOptions{} }
func (*ReadOptions) Destroy()                                   {}
func (*ReadOptions) SetFillCache(bool)                          {}
func NewDefaultWriteOptions() *WriteOptions                     { return &WriteOptions{} }
func (*WriteOptions) SetSync(bool)                              {}
func (*WriteOptions) Destroy()                                  {}
func NewDefaultTransactionOptions() *TransactionOptions         { return &TransactionOptions{} }
func NewDefaultFlushOptions() *FlushOptions                     { return &FlushOptions{} }

type ColumnFamilyHandle struct{ name string }

func (*ColumnFamilyHandle) Destroy() {}

type Slice struct{ data []byte }

func (s *Slice) Data() []byte { return s.data }
func (s *Slice) Free()        {}
func (s *Slice) Size() int    { return len(s.data) }
func (s *Slice) Exists() bool { return s.data != nil }

// ErrCrashed is returned by every write once the injected crash point is reached.
var ErrCrashed = errors.New("fake rocksdb: process crashed (injected)")

// Op is one atomic write reaching the store.
type Op struct {
	Batch bool
	N     int // number of records in it
}

// Store is the durable content behind a directory name.
type Store struct {
	mu  sync.Mutex
	cfs map[string]map[string][]byte
	// fault injection
	WritesSeen int // atomic writes applied or refused since ResetFaults
	CrashAfter int // <0: never; otherwise writes with index >= CrashAfter are refused
	FailOnly   int // <0: never; otherwise exactly the write with this index is refused (transient I/O error)
	Log        []Op
}

var (
	regMu    sync.Mutex
	registry = map[string]*Store{}
)

// StoreFor returns (creating if needed) the durable store behind dir.
func StoreFor(dir string) *Store {
	regMu.Lock()
	defer regMu.Unlock()
	s, ok := registry[dir]
	if !ok {
		s = &Store{cfs: map[string]map[string][]byte{}, CrashAfter: -1, FailOnly: -1}
		registry[dir] = s
	}
	return s
}

// Drop forgets the durable store behind dir.
func Drop(dir string) {
	regMu.Lock()
	delete(registry, dir)
	regMu.Unlock()
}

func (s *Store) ResetFaults() {
	s.mu.Lock()
	s.WritesSeen, s.CrashAfter, s.FailOnly, s.Log = 0, -1, -1, nil
	s.mu.Unlock()
}
func (s *Store) SetCrashAfter(n int) {
	s.mu.Lock()
	s.WritesSeen, s.CrashAfter = 0, n
	s.mu.Unlock()
}

// SetFailOnly makes exactly the n-th atomic write fail (the process survives).
func (s *Store) SetFailOnly(n int) {
	s.mu.Lock()
	s.WritesSeen, s.FailOnly = 0, n
	s.mu.Unlock()
}

// ErrTransient is returned by the single write refused by SetFailOnly.
var ErrTransient = errors.New("fake rocksdb: write failed (injected transient I/O error)")

func (s *Store) Writes() int {
	s.mu.Lock()
	defer s.mu.Unlock()
	return s.WritesSeen
}

// Snapshot returns a deep copy of a column family.
func (s *Store) Snapshot(cf string) map[string][]byte {
	s.mu.Lock()
	defer s.mu.Unlock()
	out := map[string][]byte{}
	for k, v := range s.cfs[cf] {
		out[k] = append([]byte(nil), v...)
	}
	return out
}

type rec struct {
	cf  string
	key string
	val []byte
	del bool
}

func (s *Store) apply(recs []rec, batch bool) error {
	s.mu.Lock()
	defer s.mu.Unlock()
	idx := s.WritesSeen
	s.WritesSeen++
	if s.CrashAfter >= 0 && idx >= s.CrashAfter {
		return ErrCrashed
	}
	if s.FailOnly >= 0 && idx == s.FailOnly {
		return ErrTransient
	}
	s.Log = append(s.Log, Op{Batch: batch, N: len(recs)})
	for _, r := range recs {
		m := s.cfs[r.cf]
		if m == nil {
			m = map[string][]byte{}
			s.cfs[r.cf] = m
		}
		if r.del {
			delete(m, r.key)
		} else {
			m[r.key] = append([]byte(nil), r.val...)
		}
	}
	return nil
}

type DB struct {
	s      *Store
	closed bool
}

var ErrColumnFamilyMustMatch = errors.New("must provide the same number of column family names and options")

func OpenDbColumnFamilies(opts *Options, name string, cfNames []string, cfOpts []*Options) (*DB, []*ColumnFamilyHandle, error) {
	if len(cfNames) != len(cfOpts) {
		return nil, nil, ErrColumnFamilyMustMatch
	}
	s := StoreFor(name)
	hs := make([]*ColumnFamilyHandle, len(cfNames))
	for i, n := range cfNames {
		hs[i] = &ColumnFamilyHandle{name: n}
	}
	return &DB{s: s}, hs, nil
}

func (db *DB) Close() { db.closed = true }

func (db *DB) get(cf string, key []byte) *Slice {
	db.s.mu.Lock()
	defer db.s.mu.Unlock()
	v, ok := db.s.cfs[cf][string(key)]
	if !ok {
		return &Slice{}
	}
	return &Slice{data: append([]byte{}, v...)}
}

func (db *DB) Get(_ *ReadOptions, key []byte) (*Slice, error) { return db.get("default", key), nil }
func (db *DB) GetCF(_ *ReadOptions, cf *ColumnFamilyHandle, key []byte) (*Slice, error) {
	return db.get(cf.name, key), nil
}
func (db *DB) Put(_ *WriteOptions, key, value []byte) error {
	return db.s.apply([]rec{{cf: "default", key: string(key), val: value}}, false)
}
func (db *DB) PutCF(_ *WriteOptions, cf *ColumnFamilyHandle, key, value []byte) error {
	return db.s.apply([]rec{{cf: cf.name, key: string(key), val: value}}, false)
}
func (db *DB) Delete(_ *WriteOptions, key []byte) error {
	return db.s.apply([]rec{{cf: "default", key: string(key), del: true}}, false)
}
func (db *DB) DeleteCF(_ *WriteOptions, cf *ColumnFamilyHandle, key []byte) error {
	return db.s.apply([]rec{{cf: cf.name, key: string(key), del: true}}, false)
}
func (db *DB) Write(_ *WriteOptions, wb *WriteBatch) error      { return db.s.apply(wb.recs, true) }
func (db *DB) Flush(*FlushOptions) error                        { return nil }
func (db *DB) GetPropertyCF(string, *ColumnFamilyHandle) string { return "" }

type WriteBatch struct{ recs []rec }

func NewWriteBatch() *WriteBatch { return &WriteBatch{} }
func (wb *WriteBatch) Destroy()  {}
func (wb *WriteBatch) Put(key, value []byte) {
	wb.recs = append(wb.recs, rec{cf: "default", key: string(key), val: append([]byte(nil), value...)})
}
func (wb *WriteBatch) Delete(key []byte) {
	wb.recs = append(wb.recs, rec{cf: "default", key: string(key), del: true})
}
func (wb *WriteBatch) PutCF(cf *ColumnFamilyHandle, key, value []byte) {
	wb.recs = append(wb.recs, rec{cf: cf.name, key: string(key), val: append([]byte(nil), value...)})
}
func (wb *WriteBatch) DeleteCF(cf *ColumnFamilyHandle, key []byte) {
	wb.recs = append(wb.recs, rec{cf: cf.name, key: string(key), del: true})
}
func (wb *WriteBatch) Count() int { return len(wb.recs) }

// Iterator walks a snapshot of one column family in key order.
type Iterator struct {
	keys []string
	vals [][]byte
	pos  int
}

func (db *DB) newIter(cf string) *Iterator {
	db.s.mu.Lock()
	defer db.s.mu.Unlock()
	it := &Iterator{pos: -1}
	for k := range db.s.cfs[cf] {
		it.keys = append(it.keys, k)
	}
	sort.Strings(it.keys)
	for _, k := range it.keys {
		it.vals = append(it.vals, append([]byte(nil), db.s.cfs[cf][k]...))
	}
	return it
}
func (db *DB) NewIterator(*ReadOptions) *Iterator { return db.newIter("default") }
func (db *DB) NewIteratorCF(_ *ReadOptions, cf *ColumnFamilyHandle) *Iterator {
	return db.newIter(cf.name)
}
func (it *Iterator) SeekToFirst()  { it.pos = 0 }
func (it *Iterator) Valid() bool   { return it.pos >= 0 && it.pos < len(it.keys) }
func (it *Iterator) Next()         { it.pos++ }
func (it *Iterator) Key() *Slice   { return &Slice{data: []byte(it.keys[it.pos])} }
func (it *Iterator) Value() *Slice { return &Slice{data: it.vals[it.pos]} }
func (it *Iterator) Close()        {}
func (it *Iterator) Err() error    { return nil }

// CloneStore copies the durable content behind src to a new store behind dst
// (fault counters reset). Used by the harness to re-run a step from the same
// pre-state with a different crash point.
func CloneStore(src, dst string) *Store {
	s := StoreFor(src)
	d := &Store{cfs: map[string]map[string][]byte{}, CrashAfter: -1, FailOnly: -1}
	s.mu.Lock()
	for cf, m := range s.cfs {
		dm := map[string][]byte{}
		for k, v := range m {
			dm[k] = append([]byte(nil), v...)
		}
		d.cfs[cf] = dm
	}
	s.mu.Unlock()
	regMu.Lock()
	registry[dst] = d
	regMu.Unlock()
	return d
}

// Crashed reports whether a write has been refused since the last SetCrashAfter/ResetFaults.
func (s *Store) Crashed() bool {
	s.mu.Lock()
	defer s.mu.Unlock()
	return s.CrashAfter >= 0 && s.WritesSeen > s.CrashAfter
}
