// C19 — Merkle tree paths prove exactly their own leaf.
package c19

import (
	"encoding/hex"
	"fmt"
	"strings"
	"testing"

	"github.com/0chain/common/core/util"
	"golang.org/x/crypto/sha3"
	"pgregory.net/rapid"

	"verif/harness/internal/ev"
	"verif/harness/internal/gen"
)

func TestMain(m *testing.M) {
	ev.SetMeta(ev.Meta{
		Property: "C19", Level: "exploration", Exhaustive: true,
		Rule: "exhaustive over leaf counts n=1..N (quick N=256, thorough N=3000; sharded by n) x every leaf index i, distinct 64-hex leaves; " +
			"per (n,i): path by index and by leaf lookup verify against GetRoot and an independent root; the path is offered with every other leaf (n<=64) or 8 other leaves + a perturbed hash and must not verify; SetTree(GetTree) round trip. " +
			"rapid adds leaf lists with duplicates and digest widths 8/64/96/128, and object histories: one MerkleTree object rebuilt with more, fewer or equally many leaves, paths by index and by lookup kept alive while further paths are requested and verified later against the root of the tree they came from (and refused for another leaf), export + load with the history continuing on the loaded object (non-trivial there = rebuilt with fewer leaves and several paths alive at once). A case (n,i) is non-trivial when n=1 or n is not a power of two and the node on i's path is the duplicated last node of an odd level; distinct = distinct (n,i).",
		Assumptions: []string{"sha3-256 from golang.org/x/crypto is the reference hash", "leaf hashes are 64 lower-case hex characters (the domain the property names)"},
	})
	ev.Main(m)
}

type leaf string

func (l leaf) GetHash() string      { return string(l) }
func (l leaf) GetHashBytes() []byte { b, _ := hex.DecodeString(string(l)); return b }

func h(s string) string {
	d := sha3.Sum256([]byte(s))
	return hex.EncodeToString(d[:])
}

// refRoot: pairwise hashing level by level, last node of an odd level paired with itself.
func refRoot(leaves []string) string {
	if len(leaves) == 1 {
		return h(leaves[0] + leaves[0])
	}
	lvl := leaves
	for len(lvl) > 1 {
		var next []string
		for i := 0; i < len(lvl); i += 2 {
			if i+1 < len(lvl) {
				next = append(next, h(lvl[i]+lvl[i+1]))
			} else {
				next = append(next, h(lvl[i]+lvl[i]))
			}
		}
		lvl = next
	}
	return lvl[0]
}

// refVerify is an independent path verifier.
func refVerify(hash string, nodes []string, idx int, root string) bool {
	cur := hash
	for _, n := range nodes {
		if idx%2 == 1 {
			cur = h(n + cur)
		} else {
			cur = h(cur + n)
		}
		idx /= 2
	}
	return cur == root
}

func mkLeaves(n int, salt uint64) ([]string, []util.Hashable) {
	ls := make([]string, n)
	hs := make([]util.Hashable, n)
	for i := range ls {
		ls[i] = h(fmt.Sprintf("leaf/%d/%d", salt, i))
		hs[i] = leaf(ls[i])
	}
	return ls, hs
}

// touchesOddTail: does the path of leaf i at some level pair a node with itself?
func touchesOddTail(n, i int) bool {
	if n == 1 {
		return true
	}
	for sz := n; sz > 1; sz, i = (sz+1)/2, i/2 {
		if sz%2 == 1 && i == sz-1 {
			return true
		}
	}
	return false
}

func mix(a ...uint64) uint64 {
	x := uint64(0x9e3779b97f4a7c15)
	for _, v := range a {
		x ^= v + 0x9e3779b97f4a7c15 + (x << 6) + (x >> 2)
		x *= 0xbf58476d1ce4e5b9
		x ^= x >> 31
	}
	return x
}

func fail(t *testing.T, n, i int, what string) {
	ev.WriteReplay("TestExhaustive", map[string]any{"n": n, "i": i, "what": what})
	t.Fatalf("n=%d i=%d: %s", n, i, what)
}

func checkN(t *testing.T, n int) {
	defer func() {
		if r := recover(); r != nil {
			fail(t, n, -1, fmt.Sprintf("panic: %v", r))
		}
	}()
	ls, hs := mkLeaves(n, ev.Seed)
	var mt util.MerkleTreeI = &util.MerkleTree{}
	mt.ComputeTree(hs)
	root := mt.GetRoot()
	if want := refRoot(ls); root != want {
		fail(t, n, -1, fmt.Sprintf("root %s != reference %s", root, want))
	}
	var mt2 util.MerkleTreeI = &util.MerkleTree{}
	tree := append([]string(nil), mt.GetTree()...)
	if err := mt2.SetTree(n, tree); err != nil {
		fail(t, n, -1, "SetTree(GetTree): "+err.Error())
	}
	if mt2.GetRoot() != root {
		fail(t, n, -1, "root after SetTree differs")
	}
	if err := (&util.MerkleTree{}).SetTree(n+1, tree); err == nil && n > 1 {
		// a tree of n+1 leaves never has the same size as one of n leaves (n>1)
		fail(t, n, -1, "SetTree accepted a wrong leaf count")
	}
	for i := 0; i < n; i++ {
		p := mt.GetPathByIndex(i)
		if p.LeafIndex != i {
			fail(t, n, i, "LeafIndex of path differs from requested index")
		}
		if !util.VerifyMerklePath(ls[i], p, root) || !mt.VerifyPath(hs[i], p) || !refVerify(ls[i], p.Nodes, i, root) {
			fail(t, n, i, "path by index does not verify")
		}
		p2 := mt.GetPath(hs[i])
		if p2.LeafIndex != i || !util.VerifyMerklePath(ls[i], p2, root) || !mt.VerifyPath(hs[i], p2) {
			fail(t, n, i, "path by leaf lookup does not verify")
		}
		p3 := mt2.GetPathByIndex(i)
		if fmt.Sprint(p3.Nodes) != fmt.Sprint(p.Nodes) || p3.LeafIndex != p.LeafIndex {
			fail(t, n, i, "path after SetTree differs")
		}
		// soundness: same path, other leaf
		if n <= 64 {
			for j := 0; j < n; j++ {
				if j != i && (util.VerifyMerklePath(ls[j], p, root) || mt.VerifyPath(hs[j], p)) {
					fail(t, n, i, fmt.Sprintf("path of %d verifies leaf %d", i, j))
				}
			}
		} else {
			for k := 0; k < 8; k++ {
				j := int(mix(ev.Seed, uint64(n), uint64(i), uint64(k)) % uint64(n))
				if j != i && (util.VerifyMerklePath(ls[j], p, root) || mt.VerifyPath(hs[j], p)) {
					fail(t, n, i, fmt.Sprintf("path of %d verifies leaf %d", i, j))
				}
			}
		}
		pert := []byte(ls[i])
		pos := int(mix(ev.Seed, uint64(n), uint64(i)) % 64)
		if pert[pos] == '0' {
			pert[pos] = '1'
		} else {
			pert[pos] = '0'
		}
		if util.VerifyMerklePath(string(pert), p, root) {
			fail(t, n, i, "perturbed leaf verifies")
		}
		// digests that come from the tree itself are different leaf hashes too: the root and the nodes on the path
		if util.VerifyMerklePath(root, p, root) || mt.VerifyPath(leaf(root), p) {
			fail(t, n, i, "the root digest offered as the leaf verifies")
		}
		for _, nd := range p.Nodes {
			if nd != ls[i] && util.VerifyMerklePath(nd, p, root) {
				fail(t, n, i, "a node of the path offered as the leaf verifies")
			}
		}
		// a foreign leaf is not found
		if n == 1 || i == 0 {
			fp := mt.GetPath(leaf(h("foreign")))
			if util.VerifyMerklePath(h("foreign"), fp, root) {
				fail(t, n, i, "foreign leaf verifies with GetPath result")
			}
		}
		nt := touchesOddTail(n, i)
		cls := "pow2-or-inner"
		if nt {
			cls = "odd-tail"
		}
		ev.Case(fmt.Sprintf("%d/%d", n, i), nt, cls)
		if nt && ev.WantSample() {
			ev.Sample(map[string]any{"n": n, "i": i, "path_len": len(p.Nodes), "root": root[:16]})
		}
	}
}

func TestExhaustive(t *testing.T) {
	var rc struct{ N, I int }
	if ev.LoadReplay("TestExhaustive", &rc) {
		checkN(t, rc.N)
		return
	}
	N := ev.N(256, 3000)
	ev.Extra("max_leaf_count", N)
	for n := 1; n <= N; n++ {
		if n%ev.NShards != ev.Shard {
			continue
		}
		checkN(t, n)
	}
}

// Large leaf counts in the quick tier too: complete for the structure (root, SetTree), sampled over indices
// (first/last of the level, the indices around every power of two and around n/2, plus drawn ones).
func TestLargeCountsSampled(t *testing.T) {
	ns := []int{2048, 2049, 2050, 2051, 3002, 4095, 4097, 4098, 5003, 6146, 8191, 10001}
	if ev.Thorough() {
		for n := 3001; n <= 12000; n += 97 {
			ns = append(ns, n)
		}
	}
	for k, n := range ns {
		if k%ev.NShards != ev.Shard {
			continue
		}
		n := n
		func() {
			defer func() {
				if r := recover(); r != nil {
					fail(t, n, -1, fmt.Sprintf("panic: %v", r))
				}
			}()
			ls, hs := mkLeaves(n, ev.Seed+7)
			mt := &util.MerkleTree{}
			mt.ComputeTree(hs)
			root := mt.GetRoot()
			if root != refRoot(ls) {
				fail(t, n, -1, "root differs from the reference root")
			}
			idx := map[int]bool{0: true, 1: true, n - 1: true, n - 2: true, n / 2: true, n/2 + 1: true, n/2 - 1: true}
			for p := 1; p < n; p *= 2 {
				idx[p-1], idx[p] = true, true
				if p+1 < n {
					idx[p+1] = true
				}
			}
			for j := 0; j < 60; j++ {
				idx[int(mix(ev.Seed, uint64(n), uint64(j))%uint64(n))] = true
			}
			for i := range idx {
				if i < 0 || i >= n {
					continue
				}
				p := mt.GetPathByIndex(i)
				if !util.VerifyMerklePath(ls[i], p, root) || !refVerify(ls[i], p.Nodes, i, root) || !mt.VerifyPath(hs[i], p) {
					fail(t, n, i, "path by index does not verify (large count)")
				}
				p2 := mt.GetPath(hs[i])
				if p2.LeafIndex != i || !util.VerifyMerklePath(ls[i], p2, root) {
					fail(t, n, i, "path by leaf lookup does not verify (large count)")
				}
				j := (i + 1 + int(mix(ev.Seed, uint64(i))%uint64(n-1))) % n
				if j != i && util.VerifyMerklePath(ls[j], p, root) {
					fail(t, n, i, fmt.Sprintf("path of %d verifies leaf %d (large count)", i, j))
				}
				ev.Case(fmt.Sprintf("L%d/%d", n, i), touchesOddTail(n, i), "large-count-sampled")
			}
		}()
	}
}

// Leaf lists with duplicates: a path by index still verifies its leaf, lookup
// returns a verifying path, and no *different* hash verifies with it.
func TestDuplicates(t *testing.T) {
	ev.Rapid(t, 300, 3000)
	rapid.Check(t, func(rt *rapid.T) {
		n := rapid.IntRange(1, 40).Draw(rt, "n")
		pool := rapid.IntRange(1, 6).Draw(rt, "pool")
		idx := rapid.SliceOfN(rapid.IntRange(0, pool-1), n, n).Draw(rt, "idx")
		// leaf strings of one uniform width per tree (the usual 64, but also shorter and longer digests)
		width := rapid.SampledFrom([]int{64, 64, 8, 96, 128}).Draw(rt, "width")
		wide := func(s string) string {
			out := h(s)
			for len(out) < width {
				out += h(out + s)
			}
			return out[:width]
		}
		ls := make([]string, n)
		hs := make([]util.Hashable, n)
		for i, x := range idx {
			ls[i] = wide(fmt.Sprintf("dup/%d", x))
			hs[i] = leaf(ls[i])
		}
		// leaves with a meaning of their own: the digest of the empty string, all zeros, all f
		if width == 64 && gen.Chance(rt, 35, "specialleaves") {
			specials := []string{h(""), strings.Repeat("0", 64), strings.Repeat("f", 64), h(h("") + h(""))}
			for k := gen.Uniform(rt, 1, 3, "nspecial"); k > 0; k-- {
				i := gen.Uniform(rt, 0, n-1, "specialat")
				ls[i] = gen.Pick(rt, specials, "special")
				hs[i] = leaf(ls[i])
			}
		}
		mt := &util.MerkleTree{}
		mt.ComputeTree(hs)
		// a leaf list that contains a digest of its own tree (an inner node, or the root, of the tree of the other leaves)
		if n >= 3 && gen.Chance(rt, 30, "selfreferential") {
			tree := mt.GetTree()
			if len(tree) > n {
				inner := tree[gen.Uniform(rt, n, len(tree)-1, "innernode")]
				i := gen.Uniform(rt, 0, n-1, "innerat")
				if gen.Chance(rt, 50, "firstinner") {
					// the very first inner node (the parent of the first two leaves), placed behind them so that it stays what it is
					inner, i = tree[n], gen.Uniform(rt, 2, n-1, "firstinnerat")
				}
				if len(inner) == width {
					ls[i] = inner
					hs[i] = leaf(inner)
					mt = &util.MerkleTree{}
					mt.ComputeTree(hs)
				}
			}
		}
		root := mt.GetRoot()
		if root != refRoot(ls) {
			rt.Fatalf("root differs from reference")
		}
		dups := 0
		for i := 0; i < n; i++ {
			p := mt.GetPathByIndex(i)
			if !util.VerifyMerklePath(ls[i], p, root) || !mt.VerifyPath(hs[i], p) || !refVerify(ls[i], p.Nodes, i, root) {
				rt.Fatalf("index path %d does not verify (function, tree method or reference verifier)", i)
			}
			p2 := mt.GetPath(hs[i])
			if !util.VerifyMerklePath(ls[i], p2, root) || !mt.VerifyPath(hs[i], p2) {
				rt.Fatalf("lookup path %d does not verify", i)
			}
			if p2.LeafIndex != i {
				dups++
			}
			for x := 0; x < pool+2; x++ {
				o := wide(fmt.Sprintf("dup/%d", x))
				if o != ls[i] && util.VerifyMerklePath(o, p, root) {
					rt.Fatalf("path %d verifies a different leaf string (width %d)", i, width)
				}
			}
			// same prefix, different tail
			o := ls[i][:width-1] + map[bool]string{true: "0", false: "1"}[ls[i][width-1] != '0']
			if util.VerifyMerklePath(o, p, root) {
				rt.Fatalf("path %d verifies a leaf string that differs in its last character (width %d)", i, width)
			}
		}
		// lookups in any order: each leaf is looked up right after the last leaf was
		for i := 0; i < n; i++ {
			_ = mt.GetPath(hs[n-1])
			p := mt.GetPath(hs[i])
			if p.LeafIndex < 0 || p.LeafIndex >= n || ls[p.LeafIndex] != ls[i] || !util.VerifyMerklePath(ls[i], p, root) {
				rt.Fatalf("lookup of leaf %d right after a lookup of the last leaf: position %d of %d, verifies %v", i, p.LeafIndex, n, util.VerifyMerklePath(ls[i], p, root))
			}
		}
		// a longer list with the same root (the tail that the odd levels duplicate anyway is spelled out) is loaded
		// into this object: from then on it is that longer tree
		if n%4 == 2 || n%2 == 1 {
			padded := append(append([]string(nil), ls...), ls[n-1])
			if n%4 == 2 {
				padded = append(append([]string(nil), ls...), ls[n-2], ls[n-1])
			}
			var phs []util.Hashable
			for _, l := range padded {
				phs = append(phs, leaf(l))
			}
			src := &util.MerkleTree{}
			src.ComputeTree(phs)
			if src.GetRoot() == root {
				if err := mt.SetTree(len(padded), append([]string(nil), src.GetTree()...)); err != nil {
					rt.Fatalf("SetTree of the %d-leaf tree with the same root into the object holding the %d-leaf tree: %v", len(padded), n, err)
				}
				if fmt.Sprint(mt.GetTree()) != fmt.Sprint(src.GetTree()) {
					rt.Fatalf("after loading a %d-leaf tree into the object that held a %d-leaf tree with the same root, the object exports another tree than it was given", len(padded), n)
				}
				for i := range padded {
					p := mt.GetPathByIndex(i)
					if p.LeafIndex != i || !util.VerifyMerklePath(padded[i], p, root) || !refVerify(padded[i], p.Nodes, i, root) {
						rt.Fatalf("after loading a %d-leaf tree over a %d-leaf tree with the same root: path of position %d does not verify", len(padded), n, i)
					}
				}
				ev.Class("longer-tree-with-the-same-root-loaded-over", 1)
			}
		}
		ev.Case(fmt.Sprintf("dup%v", idx), dups > 0 && n&(n-1) != 0, "duplicates")
	})
}

// One MerkleTree object over a history: rebuilt with more, fewer or equally many leaves, paths requested and kept
// while further paths are requested, exported and loaded into another object on which the history continues.
// Every path handed out must keep verifying its own leaf against the root of the tree it was produced from.
func TestObjectHistory(t *testing.T) {
	ev.Rapid(t, 600, 6000)
	sizes := []int{1, 2, 3, 4, 5, 7, 8, 9, 16, 17, 31, 33, 37, 64, 100, 129}
	bigSizes := []int{511, 512, 513, 700, 1023, 1024, 1025, 1100, 1537, 2049}
	rapid.Check(t, func(rt *rapid.T) {
		type held struct {
			leaf, root string
			other      string // a different leaf of the same tree ("" if the tree had one leaf)
			p          *util.MTPath
			how        string
		}
		mt := &util.MerkleTree{}
		var ls []string
		var hs []util.Hashable
		var root string
		var helds []held
		var log []string
		built, shrunk, heldAcross, loaded, refused := false, false, false, false, false
		big, twins, loadedOver, inPlace, shifted := false, false, false, false, false
		twin := -1
		var kept *keptExport
		keptLoaded := false
		build := func(step int) {
			n := gen.Pick(rt, sizes, "n")
			if gen.Chance(rt, 30, "nuniform") {
				n = gen.Uniform(rt, 1, 140, "nu")
			}
			if gen.Chance(rt, 15, "nbig") {
				n = gen.Pick(rt, bigSizes, "nb")
				big = true
			}
			if built && gen.Chance(rt, 30, "inplace") {
				// the caller keeps its leaf buffer, replaces some entries in place and computes the tree again
				n = len(ls)
				nls, nhs := mkLeaves(n, uint64(1000+step))
				ls = append([]string(nil), ls...)
				for j := gen.Uniform(rt, 1, 3, "nreplace"); j > 0; j-- {
					i := gen.Uniform(rt, 0, n-1, "replace")
					ls[i], hs[i] = nls[i], nhs[i]
				}
				mt.ComputeTree(hs)
				twin = -1
				inPlace = true
				root = mt.GetRoot()
				log = append(log, fmt.Sprintf("rebuild(%d, same buffer changed in place)", n))
				if want := refRoot(ls); root != want {
					rt.Fatalf("%v: GetRoot() = %s, reference root of the %d leaves just built is %s", log, root, n, want)
				}
				return
			}
			if built && len(ls) >= 2 && len(ls) < 600 && gen.Chance(rt, 30, "shifted") {
				// the same leaves again at other positions: the first one dropped, a new one put in front, rotated, reversed
				nls, nhs := mkLeaves(1, uint64(3000+step))
				ols, ohs := ls, hs
				how := ""
				switch gen.Uniform(rt, 0, 3, "shiftkind") {
				case 0:
					ls, hs, how = append([]string(nil), ols[1:]...), append([]util.Hashable(nil), ohs[1:]...), "first leaf dropped"
				case 1:
					ls, hs, how = append(nls, ols...), append(nhs, ohs...), "a new leaf put in front"
				case 2:
					r := gen.Uniform(rt, 1, len(ols)-1, "rot")
					ls, hs, how = append(append([]string(nil), ols[r:]...), ols[:r]...), append(append([]util.Hashable(nil), ohs[r:]...), ohs[:r]...), fmt.Sprintf("rotated by %d", r)
				default:
					ls, hs = make([]string, len(ols)), make([]util.Hashable, len(ols))
					for i := range ols {
						ls[len(ols)-1-i], hs[len(ols)-1-i] = ols[i], ohs[i]
					}
					how = "reversed"
				}
				mt.ComputeTree(hs)
				twin = -1
				shifted = true
				root = mt.GetRoot()
				log = append(log, fmt.Sprintf("rebuild(%d, the same leaves, %s)", len(ls), how))
				if want := refRoot(ls); root != want {
					rt.Fatalf("%v: GetRoot() = %s, reference root of the %d leaves just built is %s", log, root, len(ls), want)
				}
				return
			}
			if built && n < len(ls) {
				shrunk = true
			}
			ls, hs = mkLeaves(n, uint64(1000+step))
			twin = -1
			if n >= 2 && gen.Chance(rt, 35, "twinleaf") {
				// two different leaf hashes that agree in their first k characters
				i := gen.Uniform(rt, 0, n-2, "twini")
				twin = gen.Uniform(rt, i+1, n-1, "twinj")
				k := gen.Pick(rt, []int{4, 8, 16, 32, 63}, "twink")
				ls[twin] = ls[i][:k] + ls[twin][k:]
				if ls[twin] == ls[i] {
					ls[twin] = ls[i][:63] + map[bool]string{true: "0", false: "1"}[ls[i][63] != '0']
				}
				hs[twin] = leaf(ls[twin])
				twins = true
			}
			mt.ComputeTree(hs)
			built = true
			root = mt.GetRoot()
			log = append(log, fmt.Sprintf("build(%d)", n))
			if want := refRoot(ls); root != want {
				rt.Fatalf("%v: GetRoot() = %s, reference root of the %d leaves just built is %s", log, root, n, want)
			}
		}
		verify := func(hd held, when string) {
			if !util.VerifyMerklePath(hd.leaf, hd.p, hd.root) {
				rt.Fatalf("%v: %s: the path produced earlier (%s) for leaf %s no longer verifies against the root of its tree", log, when, hd.how, hd.leaf[:8])
			}
			if !refVerify(hd.leaf, hd.p.Nodes, hd.p.LeafIndex, hd.root) {
				rt.Fatalf("%v: %s: the path produced earlier (%s) fails the reference verifier", log, when, hd.how)
			}
			if hd.other != "" && util.VerifyMerklePath(hd.other, hd.p, hd.root) {
				rt.Fatalf("%v: %s: the path of leaf %s verifies another leaf", log, when, hd.leaf[:8])
			}
			if hd.root != hd.leaf && util.VerifyMerklePath(hd.root, hd.p, hd.root) {
				rt.Fatalf("%v: %s: the path of leaf %s verifies the root digest offered as a leaf", log, when, hd.leaf[:8])
			}
		}
		build(0)
		for step := 1; step <= gen.Uniform(rt, 3, 16, "steps"); step++ {
			switch k := gen.Pct(rt, "op"); {
			case k < 18:
				build(step)
			case k < 60:
				i := gen.Uniform(rt, 0, len(ls)-1, "i")
				if gen.Chance(rt, 35, "edge") {
					i = gen.Pick(rt, []int{0, len(ls) - 1, len(ls) / 2}, "ie")
				}
				if twin >= 0 && gen.Chance(rt, 40, "asktwin") {
					i = twin
				}
				hd := held{leaf: ls[i], root: root}
				if len(ls) > 1 {
					hd.other = ls[(i+1+gen.Uniform(rt, 0, len(ls)-2, "o"))%len(ls)]
				}
				if gen.Chance(rt, 50, "byindex") {
					hd.p, hd.how = mt.GetPathByIndex(i), fmt.Sprintf("GetPathByIndex(%d) of %d", i, len(ls))
				} else {
					hd.p, hd.how = mt.GetPath(hs[i]), fmt.Sprintf("GetPath(leaf %d) of %d", i, len(ls))
				}
				log = append(log, hd.how)
				if len(helds) > 0 {
					heldAcross = true
				}
				helds = append(helds, hd)
				if gen.Chance(rt, 40, "now") {
					verify(hd, "at once")
				}
			case k < 78:
				if len(helds) > 0 {
					verify(gen.Pick(rt, helds, "held"), "later")
				}
			case k < 88:
				// another tree (built on its own object) is exported and loaded into THIS object, which has served paths before
				n2 := gen.Pick(rt, sizes, "n2")
				if len(ls) >= 500 || gen.Chance(rt, 25, "n2big") {
					n2 = gen.Pick(rt, bigSizes, "n2b")
					big = true
				}
				ls2, hs2 := mkLeaves(n2, uint64(5000+step))
				if len(ls) >= 2 && len(ls) < 600 && gen.Chance(rt, 30, "loadshifted") {
					// the tree that is loaded holds this object's own leaves, rotated
					r := gen.Uniform(rt, 1, len(ls)-1, "lrot")
					n2 = len(ls)
					ls2, hs2 = append(append([]string(nil), ls[r:]...), ls[:r]...), append(append([]util.Hashable(nil), hs[r:]...), hs[:r]...)
					shifted = true
				}
				src := &util.MerkleTree{}
				src.ComputeTree(hs2)
				if err := mt.SetTree(n2, append([]string(nil), src.GetTree()...)); err != nil {
					rt.Fatalf("%v: SetTree of a %d-leaf export into a used object: %v", log, n2, err)
				}
				ls, hs, root, twin = ls2, hs2, src.GetRoot(), -1
				log = append(log, fmt.Sprintf("load a %d-leaf tree into this object", n2))
				loadedOver = true
				if mt.GetRoot() != root || root != refRoot(ls) {
					rt.Fatalf("%v: root after loading another tree into a used object is wrong", log)
				}
			case k < 90:
				// a load that must be refused (the node list does not fit the leaf count) leaves the tree as it is
				wrong := len(ls) + gen.Pick(rt, []int{1, 2, 3, 4, 5, 9, 17, 64}, "wrongby")
				if gen.Chance(rt, 40, "wrongless") && len(ls) > 2 {
					wrong = gen.Uniform(rt, 1, len(ls)-2, "wrongcount")
				}
				tree := append([]string(nil), mt.GetTree()...)
				if err := (&util.MerkleTree{}).SetTree(wrong, append([]string(nil), tree...)); err == nil {
					break // this count happens to fit the same number of nodes: not a refusal
				}
				if err := mt.SetTree(wrong, tree); err == nil {
					rt.Fatalf("%v: SetTree(%d leaves, node list of a %d-leaf tree) accepted by the built tree but refused by an empty one", log, wrong, len(ls))
				}
				log = append(log, fmt.Sprintf("refused SetTree(%d)", wrong))
				refused = true
				if mt.GetRoot() != root {
					rt.Fatalf("%v: a refused SetTree changed the root", log)
				}
			case k < 94:
				// an export is kept as handed out (not copied) and loaded much later, after the exporter has moved on
				if kept == nil {
					kept = &keptExport{tree: mt.GetTree(), n: len(ls), root: root, leaf0: ls[0], hash0: hs[0]}
					log = append(log, "keep export")
				} else {
					back := &util.MerkleTree{}
					if err := back.SetTree(kept.n, kept.tree); err != nil {
						rt.Fatalf("%v: an export kept since earlier no longer loads: %v", log, err)
					}
					if back.GetRoot() != kept.root {
						rt.Fatalf("%v: an export kept since earlier loads to root %s, it was exported at root %s", log, back.GetRoot(), kept.root)
					}
					if p := back.GetPath(kept.hash0); !util.VerifyMerklePath(kept.leaf0, p, kept.root) {
						rt.Fatalf("%v: the tree loaded from an export kept since earlier has no verifying path for its first leaf", log)
					}
					log = append(log, "load kept export")
					kept = nil
					keptLoaded = true
				}
			default:
				tree := append([]string(nil), mt.GetTree()...)
				mt2 := &util.MerkleTree{}
				if err := mt2.SetTree(len(ls), tree); err != nil {
					rt.Fatalf("%v: SetTree(GetTree()) of a tree of %d leaves: %v", log, len(ls), err)
				}
				if mt2.GetRoot() != root {
					rt.Fatalf("%v: root after export and load differs", log)
				}
				log = append(log, "export+load")
				if gen.Chance(rt, 60, "continue-on-loaded") {
					mt = mt2
					loaded = true
				}
			}
		}
		for _, hd := range helds {
			verify(hd, "at the end")
		}
		nt := shrunk && heldAcross
		cls := []string{"object-history"}
		if shrunk {
			cls = append(cls, "rebuilt-with-fewer-leaves")
		}
		if heldAcross {
			cls = append(cls, "several-paths-alive")
		}
		if loaded {
			cls = append(cls, "continued-on-loaded-object")
		}
		if refused {
			cls = append(cls, "refused-load-then-paths")
		}
		if big {
			cls = append(cls, "tree-of-500+-leaves")
		}
		if twins {
			cls = append(cls, "leaves-sharing-a-prefix")
		}
		if loadedOver {
			cls = append(cls, "other-tree-loaded-into-used-object")
		}
		if keptLoaded {
			cls = append(cls, "export-kept-and-loaded-later")
		}
		if inPlace {
			cls = append(cls, "rebuilt-from-the-same-buffer-changed-in-place")
		}
		if shifted {
			cls = append(cls, "rebuilt-or-loaded-with-the-same-leaves-at-other-positions")
		}
		ev.Case(fmt.Sprint(log), nt, cls...)
		if nt && ev.WantSample() {
			ev.Sample(map[string]any{"history": log})
		}
	})
}

// keptExport is a GetTree result held on to while its exporter goes on.
type keptExport struct {
	tree  []string
	n     int
	root  string
	leaf0 string
	hash0 util.Hashable
}
