// C09 — weighted trie: total weight, block ownership and root follow content.
package c09

import (
	"fmt"
	"github.com/0chain/common/core/util/wmpt"
	"testing"

	"pgregory.net/rapid"

	"verif/harness/internal/ev"
	"verif/harness/internal/gen"
	"verif/harness/internal/memkv"
	"verif/harness/internal/wmkit"
)

func TestMain(m *testing.M) {
	ev.SetMeta(ev.Meta{
		Property: "C09", Level: "exploration",
		Rule: "rapid state machine over one weighted trie (in memory only, or on an in-memory storage adapter): update, rewrite with the same value, delete, delete of an absent key, commit at collapse level 0..5 or 64 followed by the batch write, garbage collection (only when clean), reload from (root hash, weight), observe. Keys are 32 bytes built to share prefixes of every length (divergence in the high or only the low nibble, siblings differing in the last nibble); a key's weight is 1 + value[0] mod 7. " +
			"Oracle: after EVERY step Weight() = sum of live weights; 'observe' (an explicit action, drawn only when the trie is clean or storage-less, because hash readers clear dirty flags) checks Root() against internal/refwmpt (independent hasher over the canonical shape), and for the first and last block of every key's cumulative-weight interval plus drawn interior blocks that GetBlockProof names the owning key and the proof verifies in a fresh trie to (root, owner's value). " +
			"Removals alternate between Update(nil), Update(empty non-nil) and Delete(key); updates may go back to a value the key had earlier; deleted entries may come back unchanged; one or two collection passes. Non-trivial = a commit with collapse level below the trie depth was followed by an update or delete of a key under a collapsed subtree, with >=3 live keys sharing a prefix; distinct = distinct step log.",
		Assumptions: []string{"storage is the in-memory adapter of internal/memkv (atomic batches, locked batcher)", "garbage collection is called only on a clean trie whose batch is written (the order the package's own tests use); other positions belong to C11", "block numbers outside 1..total are outside the domain"},
	})
	ev.Main(m)
}

func run(rt *rapid.T) {
	withDB := gen.Chance(rt, 75, "withdb")
	var db *memkv.Store
	if withDB {
		db = memkv.New()
	}
	var m *wmkit.Machine
	m = wmkit.New(db, func(f string, a ...any) {
		rt.Fatalf("%s\nhistory: %s", fmt.Sprintf(f, a...), m.History())
	})
	pool := wmkit.GenKeyPool(rt, gen.Uniform(rt, 2, 12, "npool"))
	unique := wmkit.UniqueValues(rt)
	counter := 0
	readded, reverted := false, false
	steps := gen.Uniform(rt, 5, 40, "steps")
	collapsedBelow := false // a commit with a small collapse level happened
	touchedAfterCollapse, reloaded, sameValueCollapsed, deleteAfterCollapse := false, false, false, false
	refusedThenGC := false
	observes, copies := 0, 0
	for i := 0; i < steps; i++ {
		k := gen.Pct(rt, "op")
		clean := !m.Dirty
		switch {
		case k < 42:
			if k >= 8 && k < 12 && m.Resurrect(rt, "resurrect") {
				readded = true
				touchedAfterCollapse = touchedAfterCollapse || collapsedBelow
				continue
			}
			if k < 8 && m.Revert(rt, "revert") {
				// a value the key had before (possibly the one stored by the last commit) comes back
				reverted = true
				touchedAfterCollapse = touchedAfterCollapse || collapsedBelow
				continue
			}
			ki := gen.Uniform(rt, 0, len(pool)-1, "ki")
			m.Update(pool[ki], wmkit.GenValue(rt, ki, &counter, unique))
			touchedAfterCollapse = touchedAfterCollapse || collapsedBelow
		case k < 50:
			es := wmkit.Entries(m.Model)
			if len(es) == 0 {
				continue
			}
			e := gen.Pick(rt, es, "same")
			m.Logf("(rewrite same value)")
			m.Rewrite(e)
			sameValueCollapsed = sameValueCollapsed || collapsedBelow
		case k < 64:
			es := wmkit.Entries(m.Model)
			if len(es) == 0 {
				continue
			}
			e := gen.Pick(rt, es, "delkey")
			m.Delete(e.Key)
			deleteAfterCollapse = deleteAfterCollapse || collapsedBelow
			if gen.Chance(rt, 30, "readd") {
				// the same entry comes back unchanged (same node hashes as before the delete)
				m.Logf("(re-add identical)")
				m.Rewrite(e)
				readded = true
			}
		case k >= 64 && k < 66 && (clean || !withDB) && len(m.Model) > 0:
			// someone speculates on a copy of the trie (copied root over the same storage): removals and updates there,
			// hashes computed, never committed, thrown away - the original does not notice
			lvl := gen.Pick(rt, []int{0, 1, 2, 64, 64}, "copylevel")
			var cp *wmpt.WeightedMerkleTrie
			if withDB {
				cp = wmpt.New(m.T.CopyRoot(lvl), db)
			} else {
				cp = wmpt.New(m.T.CopyRoot(lvl), nil)
			}
			m.Logf("copy(%d):", lvl)
			es := wmkit.Entries(m.Model)
			for j := gen.Uniform(rt, 1, 4, "ncopyops"); j > 0; j-- {
				e := gen.Pick(rt, es, "copykey")
				if gen.Chance(rt, 60, "copydel") {
					err := cp.Update(e.Key, nil, 0)
					m.Logf("  copy del %x.. (%v)", e.Key[:2], err)
				} else {
					v := wmkit.GenValue(rt, 40, &counter, unique)
					err := cp.Update(e.Key, v, wmkit.WeightOf(v))
					m.Logf("  copy upd %x.. (%v)", e.Key[:2], err)
				}
				if gen.Chance(rt, 50, "copyroot") {
					cp.Root()
				}
			}
			copies++
			m.Observe([]uint64{uint64(gen.Uniform(rt, 0, 1000, "blkc"))})
		case k < 68:
			key := gen.Pick(rt, pool, "absent")
			if _, live := m.Model[string(key)]; !live {
				m.Delete(key)
				if withDB && clean && gen.Chance(rt, 50, "absentthengc") {
					// a refused delete changes nothing: two collection passes later everything still resolves
					m.Logf("(refused delete, then two collection passes and a full observation)")
					m.GC()
					m.GC()
					m.Observe(nil)
					refusedThenGC = true
				}
			}
		case k < 80 && withDB:
			level := gen.Pick(rt, []int{0, 0, 1, 1, 2, 3, 4, 5, 64}, "level")
			m.Commit(level)
			if level < 5 {
				collapsedBelow = true
			}
		case k < 84 && withDB && clean:
			m.GC()
			if gen.Chance(rt, 50, "gctwice") {
				m.GC()
			}
		case k < 88 && withDB && clean:
			m.Reload()
			reloaded = true
			collapsedBelow = true
		default:
			if clean || !withDB {
				m.Observe([]uint64{uint64(gen.Uniform(rt, 0, 1000, "blk")), uint64(gen.Uniform(rt, 0, 1000, "blk2"))})
				observes++
			}
		}
	}
	// closing observation on a clean trie
	if withDB && m.Dirty {
		m.Commit(gen.Pick(rt, []int{0, 1, 2, 64}, "finallevel"))
	}
	m.Observe(nil)
	sharing := 0
	es := wmkit.Entries(m.Model)
	for i := 1; i < len(es); i++ {
		if es[i].Key[0] == es[i-1].Key[0] {
			sharing++
		}
	}
	nt := (touchedAfterCollapse || deleteAfterCollapse) && sharing >= 2
	cls := []string{map[bool]string{true: "with-storage", false: "memory-only"}[withDB], map[bool]string{true: "unique-values", false: "shared-values"}[unique]}
	add := func(b bool, s string) {
		if b {
			cls = append(cls, s)
		}
	}
	add(touchedAfterCollapse, "update-through-hash-ref")
	add(deleteAfterCollapse, "delete-through-hash-ref")
	add(sameValueCollapsed, "rewrite-same-value-collapsed")
	add(reloaded, "reload")
	add(refusedThenGC, "refused-delete-then-two-gc-passes")
	add(readded, "delete-and-re-add-identical")
	add(reverted, "back-to-an-earlier-value")
	add(copies > 0, "speculation-on-a-copy-in-between")
	add(len(es) == 0, "ends-empty")
	add(len(es) == 1, "ends-single-entry")
	ev.Case(m.History(), nt, cls...)
	if nt && ev.WantSample() {
		ev.Sample(map[string]any{"history": m.Log, "live_keys": len(es), "observes": observes + 1})
	}
}

func TestWeightOwnershipRoot(t *testing.T) {
	ev.Rapid(t, 5000, 20000)
	rapid.Check(t, run)
}

// Weights at the top of the 64-bit range: three or four keys whose weights add up to more than 2^63 (but less than
// 2^64), inserted through existing branches, committed, reloaded, one of them removed and re-added.
func TestHugeWeights(t *testing.T) {
	ev.Guard(t, "TestHugeWeights", func() {
		seed := ev.SeedFor("TestHugeWeights")
		for ci, ws := range [][]uint64{{1 << 62, 1 << 62, 1 << 62}, {1<<63 - 1, 1, 1 << 62}, {1 << 61, 1 << 62, 1<<62 + 5, 1 << 61}, {1 << 63, 7, 1 << 62}} {
			db := memkv.New()
			var m *wmkit.Machine
			m = wmkit.New(db, func(f string, a ...any) {
				t.Fatalf("weights %v: %s\nhistory: %s", ws, fmt.Sprintf(f, a...), m.History())
			})
			keys := make([][]byte, len(ws))
			for i := range ws {
				k := make([]byte, 32)
				k[0] = byte(0x10*i) | 0x01 // different first nibbles: all below the root branch
				k[1] = byte(seed) + byte(ci)
				if i >= 2 {
					k[0] = keys[i-2][0] // and two pairs that share a deeper branch
					k[5] = byte(i)
				}
				keys[i] = k
			}
			for i, w := range ws {
				m.UpdateW(keys[i], []byte{byte(i), 0x77, byte(ci)}, w)
			}
			m.Commit([]int{0, 1, 2, 64}[ci%4])
			m.Observe(nil)
			m.Reload()
			m.Observe(nil)
			e := m.Model[string(keys[1])]
			m.Delete(keys[1])
			m.Rewrite(e)
			m.UpdateW(keys[0], []byte{9, 0x78, byte(ci)}, ws[0]-1)
			m.Commit(1)
			m.Observe(nil)
			wmkit.ObserveTrie(wmkit.Reopened(db, m.T.Root(), m.T.Weight()), m.Model, nil, m.Fail, "reopened")
			ev.Case(fmt.Sprintf("huge/%d", ci), true, "weights-summing-beyond-2^63")
		}
	})
}
