package c09

import (
	"fmt"
	"testing"

	"verif/harness/internal/ev"
	"verif/harness/internal/memkv"
	"verif/harness/internal/wmkit"
)

func TestWitnesses(t *testing.T) {
	ev.Witness(t, "C09-update-collapsed-value-double-counts", func() string {
		var failure string
		var m *wmkit.Machine
		m = wmkit.New(memkv.New(), func(f string, a ...any) {
			if failure == "" {
				failure = fmt.Sprintf(f, a...)
			}
			panic("stop")
		})
		func() {
			defer func() { recover() }()
			k1, k2 := make([]byte, 32), make([]byte, 32)
			k2[0] = 0x10
			m.Update(k1, []byte{0, 1})
			m.Update(k2, []byte{0, 2})
			m.Commit(0)
			m.Update(k2, []byte{0, 2}) // same value, now behind a hash reference
		}()
		if failure != "" {
			return m.History() + ": " + failure
		}
		return ""
	})
}
