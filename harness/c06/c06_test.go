// C06 — the state cache never returns a wrong value for a block.
package c06

import (
	"encoding/json"
	"fmt"
	"testing"

	"github.com/0chain/common/core/statecache"
	"pgregory.net/rapid"

	"verif/harness/internal/ev"
	"verif/harness/internal/gen"
	"verif/harness/internal/sctree"
)

func TestMain(m *testing.M) {
	ev.SetMeta(ev.Meta{
		Property: "C06", Level: "exploration",
		Rule: "rapid draws a declared block tree (2..40 blocks, forks, one or two roots, gap parents, never-committed blocks, abandoned transactions, the same block executed twice, SetBlockHash after creation; 1..4 keys; 0..3 transactions per block with sets/removes) and then a schedule: blocks start in or out of order, transaction writes interleave, transactions commit in declaration order, blocks commit in any order (child before parent included), and lookups through TransactionCache.Get, BlockCache.Get, QueryBlockCache.Get and StateCache.Get are issued at any block at any time. " +
			"Oracle: every HIT must equal the truth = own pending transaction writes, then the block's pending writes, then the first write/tombstone met walking the DECLARED parent links (a gap or never-committed block ends the walk: any hit beyond it is a violation); misses are always accepted. " +
			"A separate capacity generator builds chains of 250..400 blocks over one key with re-reads. Blocks may write directly on their block cache before their transactions; 30% of the writes store a value the key had before; a fifth of the trees are quiet chains of 22..60 blocks (answers 20+ links back). Non-trivial = the tree has a fork or a key written at two depths of a chain of >=3 blocks, and a lookup at a non-tip block preceded a lookup at one of its descendants; distinct = distinct (tree, schedule log).",
		Assumptions: []string{"a BlockCache/TransactionCache is not used for lookups after its block was committed (callers drop them)", "two BlockCache objects for one block hash carry identical content", "StateCache.Remove(key) (drops a key's whole history; outside the property's quantifier, and it does make later ancestor walks return stale values) is not drawn", "main campaign sizes stay below the cache capacities (200 versions per key, 2000 links)"},
	})
	ev.Main(m)
}

var hooks = sctree.Hooks{
	Make: func(v string) statecache.Value { return statecache.String(v) },
	Read: func(v statecache.Value) string { return string(v.(statecache.String)) },
}

func classify(r *sctree.Runner, t *sctree.Tree) (bool, []string) {
	var cls []string
	add := func(b bool, s string) {
		if b {
			cls = append(cls, s)
		}
	}
	add(t.HasFork(), "fork")
	add(t.HasGap(), "gap")
	add(r.OutOfOrderCommit, "out-of-order-commit")
	add(r.TombstoneHit, "tombstone-on-path")
	add(r.AncestorThenDescendant, "lookup-ancestor-then-descendant")
	add(r.DoubleCommit, "double-commit")
	add(r.AbandonedTxnSeen, "abandoned-txn")
	add(r.AbandonedBlockSeen, "abandoned-block")
	add(r.Hits > 0, "has-hits")
	add(r.MutatedAfterGet > 0, "caller-mutated-returned-value")
	add(t.WideTxns > 0, "transaction-of-more-than-30-writes")
	add(t.HugeTxns > 0, "transaction-of-more-than-1000-writes")
	add(r.QueryTxns > 0, "transaction-over-a-query-view")
	add(len(t.Blocks) > 256, "chain-of-more-than-256-blocks")
	nt := (t.HasFork() || t.MultiDepthKey()) && r.AncestorThenDescendant
	return nt, cls
}

func TestNeverWrong(t *testing.T) {
	ev.Rapid(t, 8000, 80000)
	rapid.Check(t, func(rt *rapid.T) {
		tree := sctree.Gen(rt, sctree.Params{MaxBlocks: gen.Pick(rt, []int{4, 8, 16, 40}, "maxblocks"), MaxKeys: 4, Forks: true, Gaps: true, Abandoned: true, Twice: true})
		h := hooks
		if gen.Chance(rt, 35, "mutablevalues") {
			// callers that modify in place what a lookup handed them (they own it) must not change any later answer
			h = sctree.MutValHooks()
		}
		if ev.Known(memoEvictionFinding) {
			h.MaxLookupBlocks = 80
		}
		r := sctree.NewRunner(rt, tree, h)
		r.Run(gen.Uniform(rt, 10, 40+4*len(tree.Blocks), "nsteps"))
		if gen.Chance(rt, 10, "emptycaches") {
			// stand-alone transaction caches (no block behind them) do not know of each other
			a := statecache.NewEmpty()
			a.Set("k0", h.Make("alone"))
			if v, ok := a.Get("k0"); !ok || h.Read(v) != "alone" {
				rt.Fatalf("NewEmpty(): own write not found")
			}
			a.Commit()
			if v, ok := statecache.NewEmpty().Get("k0"); ok {
				rt.Fatalf("a fresh NewEmpty() cache returns %q for a key another stand-alone cache wrote and committed", h.Read(v))
			}
		}
		if r.CappedLookups > 0 {
			ev.Excluded(memoEvictionFinding + ": in chains of more than 80 blocks, lookups happen at 80 of the blocks only (first ten, last fifty, twenty in between)")
		}
		nt, cls := classify(r, tree)
		b, _ := json.Marshal(tree.Blocks)
		ev.Case(string(b)+fmt.Sprint(r.Log), nt, cls...)
		ev.ExtraAdd("lookups", int64(r.Lookups))
		ev.ExtraAdd("hits", int64(r.Hits))
		ev.ExtraAdd("direct_block_writes", int64(r.DirectBlockWrites))
		ev.ExtraAdd("lookups_answered_20_or_more_links_back", int64(r.DeepWalks))
		ev.ExtraAdd("lookups_answered_100_or_more_links_back", int64(r.VeryDeepWalks))
		if nt && ev.WantSample() {
			lg := r.Log
			if len(lg) > 60 {
				lg = lg[:60]
			}
			ev.Sample(map[string]any{"blocks": tree.Blocks, "schedule_head": lg, "lookups": r.Lookups, "hits": r.Hits})
		}
	})
}

// Capacity: long chains over one key, re-reads refresh old entries; same oracle.
const evictionFinding = "C06-per-key-lru-eviction-stale-hit"

// evictionWitness: 211 blocks in a chain all write k; a lookup at B5 refreshes
// its entry in the key's 200-entry LRU, so B0..B4 and B6..B11 are evicted but B5
// stays; a lookup at B8 then walks past its own evicted entry to B5.
func evictionWitness() string {
	sc := statecache.NewStateCache()
	commit := func(i int) {
		prev := ""
		if i > 0 {
			prev = fmt.Sprintf("B%d", i-1)
		}
		bc := statecache.NewBlockCache(sc, statecache.Block{Round: int64(i), Hash: fmt.Sprintf("B%d", i), PrevHash: prev})
		tc := statecache.NewTransactionCache(bc)
		tc.Set("k", statecache.String(fmt.Sprintf("v%d", i)))
		tc.Commit()
		bc.Commit()
	}
	for i := 0; i < 200; i++ {
		commit(i)
	}
	if v, ok := sc.Get("k", "B5"); !ok || v.(statecache.String) != "v5" {
		return ""
	}
	for i := 200; i <= 210; i++ {
		commit(i)
	}
	if v, ok := sc.Get("k", "B8"); ok && v.(statecache.String) != "v8" {
		return fmt.Sprintf("chain B0..B210 all writing k, lookup k@B5 after 200 commits, lookup k@B8 after 211: hit %q, truth \"v8\" (B8's own entry was evicted from the key's 200-entry LRU while the refreshed older entry of B5 survived)", string(v.(statecache.String)))
	}
	return ""
}

// The same capacity, filled by remembered answers instead of writes: B0 sets k, B1 removes it, B2..B259 write nothing.
// Lookups of k at B2..B259 (each remembered under that block in the key's 200-entry table), each preceded by a lookup
// at B0 that keeps B0's entry fresh, push B1's removal marker out; a lookup at B1 then walks on to B0.
const memoEvictionFinding = "C06-per-key-lru-eviction-by-remembered-answers"

func memoEvictionWitness() string {
	sc := statecache.NewStateCache()
	commit := func(i int, w func(tc *statecache.TransactionCache)) {
		prev := ""
		if i > 0 {
			prev = fmt.Sprintf("B%d", i-1)
		}
		bc := statecache.NewBlockCache(sc, statecache.Block{Round: int64(i), Hash: fmt.Sprintf("B%d", i), PrevHash: prev})
		tc := statecache.NewTransactionCache(bc)
		if w != nil {
			w(tc)
		}
		tc.Commit()
		bc.Commit()
	}
	commit(0, func(tc *statecache.TransactionCache) { tc.Set("k", statecache.String("v0")) })
	commit(1, func(tc *statecache.TransactionCache) { tc.Remove("k") })
	for i := 2; i < 260; i++ {
		commit(i, nil)
	}
	for i := 2; i < 260; i++ {
		sc.Get("k", "B0")
		if v, ok := sc.Get("k", fmt.Sprintf("B%d", i)); ok {
			return fmt.Sprintf("chain B0 (k=v0), B1 (k removed), B2..B259: lookup k@B%d hits %q, truth: removed", i, string(v.(statecache.String)))
		}
	}
	if v, ok := sc.Get("k", "B1"); ok {
		return fmt.Sprintf("chain B0 (k=v0), B1 (k removed), B2..B259 write nothing; lookups of k at B2..B259, each after a lookup at B0; then lookup k@B1 hits %q, truth: removed (B1's removal marker was pushed out of the key's 200-entry table by the answers remembered for the other blocks, B0's refreshed entry survived)", string(v.(statecache.String)))
	}
	return ""
}

func TestWitnesses(t *testing.T) {
	ev.Witness(t, evictionFinding, evictionWitness)
	ev.Witness(t, memoEvictionFinding, memoEvictionWitness)
	ev.Witness(t, "C06-memoise-replaces-key-map", func() string {
		sc := statecache.NewStateCache()
		mk := func(h, prev string, w func(tc *statecache.TransactionCache)) {
			bc := statecache.NewBlockCache(sc, statecache.Block{Hash: h, PrevHash: prev})
			tc := statecache.NewTransactionCache(bc)
			if w != nil {
				w(tc)
			}
			tc.Commit()
			bc.Commit()
		}
		mk("A", "", func(tc *statecache.TransactionCache) { tc.Set("k", statecache.String("1")) })
		mk("B", "A", nil)
		mk("C", "B", func(tc *statecache.TransactionCache) { tc.Set("k", statecache.String("2")) })
		sc.Get("k", "B")
		if v, ok := sc.Get("k", "C"); ok && v.(statecache.String) != "2" {
			return fmt.Sprintf("A sets k=1, B<-A, C<-B sets k=2; read k@B; read k@C returns %q", string(v.(statecache.String)))
		}
		return ""
	})
}

func TestCapacityChains(t *testing.T) {
	if ev.Known(evictionFinding) {
		ev.Excluded(evictionFinding + ": chains longer than the per-key capacity (200 writes of one key) are not drawn")
		return
	}
	ev.Rapid(t, 6, 120)
	rapid.Check(t, func(rt *rapid.T) {
		n := gen.Uniform(rt, 250, 400, "len")
		tree := &sctree.Tree{Keys: []string{"k0", "k1"}}
		for i := 0; i < n; i++ {
			b := sctree.Block{Hash: fmt.Sprintf("B%d", i), Round: int64(i + 1), Commit: true}
			if i > 0 {
				b.Prev = fmt.Sprintf("B%d", i-1)
			}
			if gen.Chance(rt, 85, "writes") {
				w := sctree.Write{Key: "k0", Val: fmt.Sprintf("v%d", i)}
				if gen.Chance(rt, 10, "rm") {
					w = sctree.Write{Key: "k0", Remove: true}
				}
				b.Txns = []sctree.Txn{{Writes: []sctree.Write{w}, Commit: true}}
			}
			if i%50 == 7 {
				b.Txns = append(b.Txns, sctree.Txn{Writes: []sctree.Write{{Key: "k1", Val: fmt.Sprintf("w%d", i)}}, Commit: true})
			}
			tree.Blocks = append(tree.Blocks, b)
		}
		tree.Index()
		r := sctree.NewRunner(rt, tree, hooks)
		r.Run(gen.Uniform(rt, 3*n, 5*n, "nsteps"))
		ev.Case(fmt.Sprintf("cap%d%v", n, r.Log), true, "capacity-chain")
		ev.ExtraAdd("lookups", int64(r.Lookups))
		ev.ExtraAdd("hits", int64(r.Hits))
	})
}

// A key that enters the cache in a block of more than 8192 keys (a bulk load), is rewritten by a few later blocks and
// looked up at old and new blocks in a drawn order: far fewer than 200 entries per key, so every hit must be the chain's
// value, and a lookup at a block that wrote the key must find that write.
func TestKeyBornInABulkBlock(t *testing.T) {
	ev.Rapid(t, 2, 20)
	rapid.Check(t, func(rt *rapid.T) {
		sc := statecache.NewStateCache()
		nfill := gen.Uniform(rt, 8200, 9500, "nfill")
		n := gen.Uniform(rt, 18, 40, "nblocks")
		truth := make([]string, n) // value of "hot" visible at block i
		wrote := make([]bool, n)
		for i := 0; i < n; i++ {
			prev := ""
			if i > 0 {
				prev = fmt.Sprintf("G%d", i-1)
				truth[i] = truth[i-1]
			}
			bc := statecache.NewBlockCache(sc, statecache.Block{Round: int64(i), Hash: fmt.Sprintf("G%d", i), PrevHash: prev})
			tc := statecache.NewTransactionCache(bc)
			if i == 0 {
				for f := 0; f < nfill; f++ {
					tc.Set(fmt.Sprintf("fill%d", f), statecache.String("f"))
				}
			}
			if i <= 1 || gen.Chance(rt, 15, "rewrite") {
				truth[i] = fmt.Sprintf("hot%d", i)
				wrote[i] = true
				tc.Set("hot", statecache.String(truth[i]))
			}
			tc.Commit()
			bc.Commit()
		}
		for q := gen.Uniform(rt, 40, 90, "nlookups"); q > 0; q-- {
			i := gen.Uniform(rt, 0, n-1, "at")
			if gen.Chance(rt, 30, "old") {
				i = gen.Uniform(rt, 0, 2, "atold")
			}
			v, ok := sc.Get("hot", fmt.Sprintf("G%d", i))
			if ok && string(v.(statecache.String)) != truth[i] {
				rt.Fatalf("key born in a block of %d keys, chain of %d blocks: lookup hot@G%d hit %q, the chain says %q", nfill+1, n, i, string(v.(statecache.String)), truth[i])
			}
			if !ok && wrote[i] {
				rt.Fatalf("key born in a block of %d keys: lookup hot@G%d misses although G%d itself wrote it (the key has fewer than %d entries)", nfill+1, i, i, n+90)
			}
		}
		ev.Case(fmt.Sprintf("bulk/%d/%d", nfill, n), true, "key-born-in-a-block-of-more-than-8192-keys")
	})
}
