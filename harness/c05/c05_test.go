// C05 — dead-node records and pruning never remove live state.
package c05

import (
	"encoding/json"
	"fmt"
	"strings"
	"testing"

	"github.com/linxGnu/grocksdb"
	"pgregory.net/rapid"

	"verif/harness/internal/ev"
	"verif/harness/internal/gen"
	"verif/harness/internal/mptkit"
	"verif/harness/internal/rounds"
)

func TestMain(m *testing.M) {
	ev.SetMeta(ev.Meta{
		Property: "C05", Level: "fault_enumeration",
		Rule: "rapid draws multi-round histories as in C04 (including delete-then-recreate of identical content within a round and across rounds, long-lived untouched subtrees) with PruneBelowVersion(v), v drawn from 1..newest+1, after arbitrary rounds. Oracle: (1) the dead set a round reports is disjoint from the nodes reachable (harness walker over raw store bytes) from that round's root and from every later round's root; (2) after each prune every saved root with version >= v is fully readable from the store alone and equals its model; (3) keys removed by the prune are a subset of the union of dead sets of rounds below v. " +
			"Crash points are ENUMERATED: for every prefix of the prune's atomic write stream the prune is re-run from a copy of the pre-prune store with later writes refused, then restart, (2), prune again to completion, (2) and (3). A dedicated large history crosses the 1000-node delete batch limit, and a long one has 262..330 rounds (round numbers beyond one byte) pruned at a low version and at a version above 256. " +
			"One evaluation = one history or one (history, prune, prefix) crash run. Non-trivial = a prune that deletes >=1 node while >=2 retained roots exist, in a history with identical re-creation of deleted content; distinct = distinct (history, prune, prefix).",
		Assumptions: []string{"the persistent store is the in-memory grocksdb stand-in (atomic ordered writes, ordered iteration of the dead-node column family); compaction and SetSync(false) durability are not modelled"},
	})
	ev.Main(m)
}

func describe(s *rounds.Script) string {
	b, _ := json.Marshal(s.Rounds)
	return string(b)
}

type fataler interface{ Fatalf(string, ...any) }

// checkRetained: every saved root with version >= v is readable.
func checkRetained(dir string, saved []rounds.Saved, v int64) error {
	for _, sv := range saved {
		if sv.Version >= v && !sv.Pruned {
			if err := rounds.CheckReadable(dir, sv); err != nil {
				return err
			}
		}
	}
	return nil
}

func deadUnion(saved []rounds.Saved, below int64) map[string]bool {
	u := map[string]bool{}
	for _, sv := range saved {
		if sv.Version < below {
			for _, k := range sv.Dead {
				u[k] = true
			}
		}
	}
	return u
}

func removedOutsideDead(before, after map[string]bool, dead map[string]bool) []string {
	var bad []string
	for k := range before {
		if !after[k] && !dead[k] {
			bad = append(bad, fmt.Sprintf("%x", k))
		}
	}
	return bad
}

func runScript(t fataler, s *rounds.Script, desc string) (pruneDeleted, pruneRuns, crashRuns int, nontrivialPrune bool) {
	dir := rounds.NewDir()
	defer mptkit.DropDir(dir)
	var saved []rounds.Saved
	var prevRoot []byte
	for i, rd := range s.Rounds {
		root, dead, err := rounds.ExecRound(dir, prevRoot, rd)
		if err != nil {
			t.Fatalf("history %s: round %d: %v", desc, i, err)
		}
		saved = append(saved, rounds.Saved{Version: rd.Version, Root: root, Model: s.Models[i], Dead: dead})
		prevRoot = root
		// (1) no dead set recorded so far intersects what this root reaches
		reach := rounds.Reachable(dir, root)
		for _, sv := range saved {
			for _, k := range sv.Dead {
				if reach[k] {
					t.Fatalf("history %s: node %x reported dead in round version %d is reachable from the root of round version %d", desc, k, sv.Version, rd.Version)
				}
			}
		}
		if err := rounds.CheckReadable(dir, saved[i]); err != nil {
			t.Fatalf("history %s: %v", desc, err)
		}
		if rd.PruneBelow == 0 {
			continue
		}
		v := rd.PruneBelow
		pre := rounds.NewDir()
		grocksdb.CloneStore(dir, pre)
		before := rounds.Keys(dir)
		st := grocksdb.StoreFor(dir)
		st.ResetFaults()
		if err := rounds.Prune(dir, v); err != nil {
			t.Fatalf("history %s: prune below %d: %v", desc, v, err)
		}
		W := st.Writes()
		after := rounds.Keys(dir)
		deadU := deadUnion(saved, v)
		if bad := removedOutsideDead(before, after, deadU); len(bad) > 0 {
			t.Fatalf("history %s: prune below %d removed nodes never recorded dead below that version: %v", desc, v, bad)
		}
		if err := checkRetained(dir, saved, v); err != nil {
			t.Fatalf("history %s: after prune below %d: %v", desc, v, err)
		}
		deleted := len(before) - len(after)
		pruneDeleted += deleted
		pruneRuns++
		retained := 0
		for _, sv := range saved {
			if sv.Version >= v {
				retained++
			}
		}
		if deleted > 0 && retained >= 2 {
			nontrivialPrune = true
		}
		// crash enumeration over the prune's write stream
		for n := 0; n < W; n++ {
			cdir := rounds.NewDir()
			cs := grocksdb.CloneStore(pre, cdir)
			cs.SetCrashAfter(n)
			perr := rounds.Prune(cdir, v)
			cs.ResetFaults()
			if err := checkRetained(cdir, saved, v); err != nil {
				t.Fatalf("history %s: prune below %d crashed after %d writes (err=%v): %v", desc, v, n, perr, err)
			}
			if err := rounds.Prune(cdir, v); err != nil {
				t.Fatalf("history %s: re-run of prune below %d after crash at %d: %v", desc, v, n, err)
			}
			if err := checkRetained(cdir, saved, v); err != nil {
				t.Fatalf("history %s: prune below %d re-run after crash at %d: %v", desc, v, n, err)
			}
			if bad := removedOutsideDead(before, rounds.Keys(cdir), deadU); len(bad) > 0 {
				t.Fatalf("history %s: crashed+re-run prune below %d removed nodes never recorded dead: %v", desc, v, bad)
			}
			mptkit.DropDir(cdir)
			crashRuns++
			ev.Case(fmt.Sprintf("%s|%d|%d", desc, i, n), s.Recreate && deleted > 0 && retained >= 2, "crash-in-prune")
		}
		mptkit.DropDir(pre)
		for j := range saved {
			if saved[j].Version < v {
				saved[j].Pruned = true
			}
		}
	}
	return
}

func TestDeadNodesAndPrune(t *testing.T) {
	ev.Rapid(t, 1000, 8000)
	rapid.Check(t, func(rt *rapid.T) {
		s := rounds.Gen(rt, 7, true)
		desc := describe(s)
		deleted, prunes, crashes, ntPrune := runScript(rt, s, desc)
		nt := ntPrune && s.Recreate
		cls := []string{fmt.Sprintf("rounds:%d", len(s.Rounds)), "history"}
		add := func(b bool, c string) {
			if b {
				cls = append(cls, c)
			}
		}
		add(prunes > 0, "has-prune")
		add(deleted > 0, "prune-deletes>0")
		add(s.Recreate, "identical-recreate")
		add(s.Wide, "round-numbers-beyond-32-bits")
		add(ntPrune, "prune-with>=2-retained-roots")
		for _, rd := range s.Rounds {
			if rd.PruneBelow > 0 {
				add(rd.PruneBelow > rd.Version, "prune-version=newest+1")
				add(rd.PruneBelow <= s.Rounds[0].Version, "prune-version<=oldest")
			}
		}
		ev.Case(desc, nt, cls...)
		if nt && ev.WantSample() {
			ev.Sample(map[string]any{"rounds": s.Rounds, "nodes_pruned": deleted, "crash_runs": crashes})
		}
	})
}

// A history with more than 1000 dead nodes below the prune version: both delete-batch paths run.
func TestLargePrune(t *testing.T) {
	ev.Rapid(t, 2, 12)
	rapid.Check(t, func(rt *rapid.T) {
		nkeys := gen.Uniform(rt, 600, 760, "nkeys")
		s := &rounds.Script{}
		model := map[string][]byte{}
		hexd := "0123456789abcdef"
		key := func(i int) string {
			return string([]byte{hexd[i>>8&15], hexd[i>>4&15], hexd[i&15], hexd[(i*7)&15]})
		}
		for r := 0; r < 4; r++ {
			var ops []mptkit.Op
			for i := 0; i < nkeys; i++ {
				v := []byte{byte(r + 1), byte(i), byte(i >> 8)}
				ops = append(ops, mptkit.Op{Kind: "ins", Path: key(i), Val: fmt.Sprintf("%x", v)})
				model[key(i)] = v
			}
			rd := rounds.Round{Version: int64(r + 1), Txns: []rounds.Txn{{Ops: ops, Merge: true}}}
			if r == 3 {
				rd.PruneBelow = int64(gen.Uniform(rt, 4, 5, "pv"))
			}
			s.Rounds = append(s.Rounds, rd)
			s.Models = append(s.Models, mptkit.CopyContent(model))
		}
		deleted, _, crashes, _ := runScript(rt, s, fmt.Sprintf("large(%d keys x 4 rounds, prune below %d)", nkeys, s.Rounds[3].PruneBelow))
		cl := "large-prune>1000-nodes"
		if deleted <= 1000 {
			cl = "large-prune<=1000-nodes" // the generator is built to cross the 1000-node batch limit; the class shows if it did
		}
		ev.Case(fmt.Sprintf("large/%d/%d", nkeys, s.Rounds[3].PruneBelow), true, cl)
		ev.Sample(map[string]any{"large_history_keys": nkeys, "nodes_pruned": deleted, "crash_runs": crashes, "prune_below": s.Rounds[3].PruneBelow})
	})
}

// A history of more than 256 rounds (the round number no longer fits one byte of the dead-node record key), pruned
// at a low version and then at a version above 256.
func TestLongHistory(t *testing.T) {
	ev.Rapid(t, 2, 10)
	rapid.Check(t, func(rt *rapid.T) {
		nrounds := gen.Uniform(rt, 262, 330, "nrounds")
		keys := []string{"0a", "0a11", "0b22", "1c", "1c3344", "2d"}
		s := &rounds.Script{}
		model := map[string][]byte{}
		low := int64(gen.Uniform(rt, 2, 40, "lowprune"))
		high := int64(gen.Uniform(rt, 257, nrounds, "highprune"))
		for r := 1; r <= nrounds; r++ {
			var ops []mptkit.Op
			for i := gen.Uniform(rt, 1, 2, "nops"); i > 0; i-- {
				k := gen.Pick(rt, keys, "k")
				if _, live := model[k]; live && gen.Chance(rt, 30, "del") {
					ops = append(ops, mptkit.Op{Kind: "del", Path: k})
					delete(model, k)
				} else {
					v := []byte{byte(r), byte(r >> 8), byte(gen.Uniform(rt, 0, 3, "v"))}
					ops = append(ops, mptkit.Op{Kind: "ins", Path: k, Val: fmt.Sprintf("%x", v)})
					model[k] = v
				}
			}
			rd := rounds.Round{Version: int64(r), Txns: []rounds.Txn{{Ops: ops, Merge: true}}}
			if r == nrounds-1 {
				rd.PruneBelow = low
			}
			if r == nrounds {
				rd.PruneBelow = high
			}
			s.Rounds = append(s.Rounds, rd)
			s.Models = append(s.Models, mptkit.CopyContent(model))
		}
		deleted, _, crashes, _ := runScript(rt, s, fmt.Sprintf("long(%d rounds, prune below %d then %d)", nrounds, low, high))
		ev.Case(fmt.Sprintf("long/%d/%d/%d", nrounds, low, high), true, "history>256-rounds")
		ev.Sample(map[string]any{"rounds": nrounds, "prune_below": []int64{low, high}, "nodes_pruned": deleted, "crash_runs": crashes})
	})
}

var _ = strings.HasPrefix

// TestRoundExecutedAgain: a round whose dead nodes were recorded is abandoned and executed again at the same version on top
// of the same previous root (as an empty round, or with other writes); the execution that counts is the second one and
// its report replaces the first. A later round builds on it; pruning below that round's version leaves its root readable.
func TestRoundExecutedAgain(t *testing.T) {
	ev.Rapid(t, 300, 2500)
	rapid.Check(t, func(rt *rapid.T) {
		dir := rounds.NewDir()
		defer mptkit.DropDir(dir)
		model := map[string][]byte{}
		var used []string
		v0 := int64(gen.Uniform(rt, 1, 5, "v0"))
		round := func(v int64, n int, label string) rounds.Round {
			ops := mptkit.GenOpsP(rt, model, &used, n, 3, 30, label)
			return rounds.Round{Version: v, Txns: []rounds.Txn{{Ops: ops, Merge: true}}}
		}
		var log []string
		exec := func(prev []byte, rd rounds.Round, what string) []byte {
			root, _, err := rounds.ExecRound(dir, prev, rd)
			if err != nil {
				rt.Fatalf("%v: %s (version %d): %v", log, what, rd.Version, err)
			}
			log = append(log, fmt.Sprintf("%s v%d %v", what, rd.Version, rd.Txns))
			return root
		}
		root1 := exec(nil, round(v0, gen.Uniform(rt, 2, 8, "n1"), "r1"), "round")
		model1 := mptkit.CopyContent(model)
		// first execution of the next round: recorded, then abandoned
		exec(root1, round(v0+1, gen.Uniform(rt, 1, 6, "n2a"), "r2a"), "abandoned execution of round")
		// second execution on top of the same previous root
		model = mptkit.CopyContent(model1)
		n2 := 0
		if gen.Chance(rt, 50, "secondnonempty") {
			n2 = gen.Uniform(rt, 1, 6, "n2b")
		}
		rd2 := round(v0+1, n2, "r2b")
		if n2 == 0 {
			rd2.Txns = nil
		}
		root2 := exec(root1, rd2, "second execution of round")
		model2 := mptkit.CopyContent(model)
		root3 := exec(root2, round(v0+2, gen.Uniform(rt, 1, 6, "n3"), "r3"), "round")
		model3 := mptkit.CopyContent(model)
		pv := v0 + int64(gen.Uniform(rt, 1, 3, "prunebelow"))
		if err := rounds.Prune(dir, pv); err != nil {
			rt.Fatalf("%v: prune below %d: %v", log, pv, err)
		}
		log = append(log, fmt.Sprintf("prune below %d", pv))
		for _, sv := range []rounds.Saved{{Version: v0 + 1, Root: root2, Model: model2}, {Version: v0 + 2, Root: root3, Model: model3}} {
			if sv.Version < pv {
				continue
			}
			if err := rounds.CheckReadable(dir, sv); err != nil {
				rt.Fatalf("%v: after the prune the root of version %d: %v", log, sv.Version, err)
			}
		}
		ev.Case(fmt.Sprint(log), true, "round-executed-again", fmt.Sprintf("second-execution-empty:%v", n2 == 0))
	})
}
