// C14 — every stored trie node is addressed by its own hash and round-trips.
package c14

import (
	"bytes"
	"context"
	"fmt"
	"golang.org/x/crypto/sha3"
	"io"
	"testing"
	"testing/iotest"

	"github.com/0chain/common/core/util"
	"github.com/linxGnu/grocksdb"
	"pgregory.net/rapid"

	"verif/harness/internal/ev"
	"verif/harness/internal/gen"
	"verif/harness/internal/mptkit"
	"verif/harness/internal/refmpt"
)

func TestMain(m *testing.M) {
	ev.SetMeta(ev.Meta{
		Property: "C14", Level: "exploration",
		Rule: "(a) rapid-generated multi-version histories on memory, layered and persistent stores (with SaveChanges into a persistent store); every (key,node) a store yields through NodeDB.Iterate, and every raw record of the persistent default column family, must satisfy key = node hash = reference hash of the reference-parsed encoding, CreateNode(Encode(n)) must reproduce encoding/hash/type/origin/version, Clone and CloneNode must preserve hash and encoding, and a walk of the raw bytes from the saved root must reproduce the content. " +
			"(b) directly generated nodes of every kind (leaf incl. empty path, branch with every child-subset size with/without value, extension, value node) at origins {0,1,small,2^31,2^62} with separator/zero bytes in values. " +
			"A save may cover several versions; a large case saves 260..520 keys in one SaveChanges; every generated node is also decoded through readers that deliver one byte at a time, the type byte separately, and half reads. Non-trivial = branch with value, or value containing ':' or 0x00, or origin >= 2^31, or extension whose child key contains ':'; distinct = distinct node encoding.",
		Assumptions: []string{"persistent stores run on the in-memory grocksdb stand-in", "internal/refmpt parser/hasher is the reference for the byte format"},
	})
	ev.Main(m)
}

type fataler interface{ Fatalf(string, ...any) }

// encodings handed out earlier must never change when other nodes are encoded later
var remembered [][2][]byte

func checkRemembered(t fataler) {
	for _, r := range remembered {
		if !bytes.Equal(r[0], r[1]) {
			t.Fatalf("an encoding returned by an earlier Encode() call changed after later Encode() calls: was %x, now %x", r[1], r[0])
		}
	}
}

func remember(enc []byte) {
	remembered = append(remembered, [2][]byte{enc, append([]byte(nil), enc...)})
	if len(remembered) > 24 {
		remembered = remembered[1:]
	}
}

// checkNode: the round-trip and addressing obligations for one stored node.
func checkNode(t fataler, where string, key []byte, n util.Node) (nontrivial bool, kind string) {
	checkRemembered(t)
	enc := n.Encode()
	remember(enc)
	if len(enc) == 0 {
		t.Fatalf("%s: node under %x encodes to nothing", where, key)
	}
	if vn, ok := n.(*util.ValueNode); ok {
		back, err := util.CreateNode(bytes.NewReader(enc))
		if err != nil || !bytes.Equal(back.Encode(), enc) || back.GetHash() != vn.GetHash() {
			t.Fatalf("%s: value node does not round-trip (%v)", where, err)
		}
		return bytes.ContainsAny(vn.GetValueBytes(), ":\x00"), "value"
	}
	if key != nil && !bytes.Equal(key, n.GetHashBytes()) {
		t.Fatalf("%s: node stored under %x hashes to %x (%T origin %d)", where, key, n.GetHashBytes(), n, n.GetOrigin())
	}
	rn, err := refmpt.Parse(enc)
	if err != nil {
		t.Fatalf("%s: reference parser rejects encoding of %T %x", where, n, enc)
	}
	if !bytes.Equal(refmpt.Hash(rn), n.GetHashBytes()) {
		t.Fatalf("%s: %T hash %x, reference hash of its encoding %x", where, n, n.GetHashBytes(), refmpt.Hash(rn))
	}
	if !bytes.Equal(refmpt.Encode(rn), enc) {
		t.Fatalf("%s: reference re-encoding differs for %T: %x vs %x", where, n, refmpt.Encode(rn), enc)
	}
	if rn.Origin != int64(n.GetOrigin()) || rn.Version != int64(n.GetVersion()) {
		t.Fatalf("%s: origin/version in encoding %d/%d, node says %d/%d", where, rn.Origin, rn.Version, n.GetOrigin(), n.GetVersion())
	}
	back, err := util.CreateNode(bytes.NewReader(enc))
	if err != nil {
		t.Fatalf("%s: CreateNode(Encode(%T)): %v", where, n, err)
	}
	if !bytes.Equal(back.Encode(), enc) || !bytes.Equal(back.GetHashBytes(), n.GetHashBytes()) || back.GetNodeType() != n.GetNodeType() ||
		back.GetOrigin() != n.GetOrigin() || back.GetVersion() != n.GetVersion() {
		t.Fatalf("%s: %T does not round-trip: enc %x -> %x, hash %x -> %x", where, n, enc, back.Encode(), n.GetHashBytes(), back.GetHashBytes())
	}
	// the decoder takes any io.Reader: one that hands out the bytes in pieces must give the same node
	for _, pr := range []struct {
		name string
		r    io.Reader
	}{
		{"one byte at a time", iotest.OneByteReader(bytes.NewReader(enc))},
		{"type byte, then rest", io.MultiReader(bytes.NewReader(enc[:1]), bytes.NewReader(enc[1:]))},
		{"half reads", iotest.HalfReader(bytes.NewReader(enc))},
	} {
		name := pr.name
		piecewise, err := util.CreateNode(pr.r)
		if err != nil {
			t.Fatalf("%s: CreateNode from a reader delivering %s: %v", where, name, err)
		}
		if !bytes.Equal(piecewise.Encode(), enc) || !bytes.Equal(piecewise.GetHashBytes(), n.GetHashBytes()) {
			t.Fatalf("%s: %T decoded from a reader delivering %s differs: enc %x -> %x", where, n, name, enc, piecewise.Encode())
		}
	}
	// a caller that reads records into one scratch buffer: the node decoded from it stays what it was when the buffer
	// is used for the next record
	{
		buf := bytes.NewBuffer(append(make([]byte, 0, len(enc)+64), enc...))
		fromBuf, err := util.CreateNode(buf)
		if err != nil {
			t.Fatalf("%s: CreateNode from a bytes.Buffer: %v", where, err)
		}
		buf.Reset()
		buf.Write(bytes.Repeat([]byte{'f'}, len(enc)+64))
		if !bytes.Equal(fromBuf.Encode(), enc) || !bytes.Equal(fromBuf.GetHashBytes(), n.GetHashBytes()) {
			t.Fatalf("%s: %T decoded from a bytes.Buffer changed when the buffer was reused: enc %x -> %x", where, n, enc, fromBuf.Encode())
		}
	}
	for name, c := range map[string]util.Node{"CloneNode": n.CloneNode(), "Clone": n.Clone().(util.Node)} {
		if !bytes.Equal(c.Encode(), enc) || !bytes.Equal(c.GetHashBytes(), n.GetHashBytes()) {
			t.Fatalf("%s: %s of %T changes encoding or hash", where, name, n)
		}
	}
	switch rn.Type {
	case refmpt.TLeaf:
		kind = "leaf"
		nontrivial = bytes.ContainsAny(rn.Value, ":\x00")
	case refmpt.TBranch:
		kind = "branch"
		nontrivial = rn.Value != nil
	case refmpt.TExt:
		kind = "extension"
		nontrivial = bytes.IndexByte(rn.Child, ':') >= 0
	}
	if rn.Origin >= 1<<31 {
		nontrivial = true
	}
	return nontrivial, kind
}

func checkStore(t fataler, where string, db util.NodeDB) int {
	n := 0
	err := db.Iterate(context.Background(), func(ctx context.Context, key util.Key, node util.Node) error {
		nt, kind := checkNode(t, where, key, node)
		cls := []string{"node:" + kind, "store:" + where}
		if node.GetOrigin() >= 1<<31 {
			cls = append(cls, "big-origin")
		}
		ev.Case(string(node.Encode()), nt, cls...)
		n++
		return nil
	})
	if err != nil {
		t.Fatalf("%s: Iterate: %v", where, err)
	}
	checkReadBack(t, where, db)
	return n
}

// checkReadBack: the other two read paths of a store (GetNode, MultiGetNode) hand out, for every key the store
// lists, a node that is addressed by that key and has the listed encoding, in the order asked for.
func checkReadBack(t fataler, where string, db util.NodeDB) {
	var keys []util.Key
	var encs [][]byte
	_ = db.Iterate(context.Background(), func(ctx context.Context, key util.Key, node util.Node) error {
		keys = append(keys, append(util.Key{}, key...))
		encs = append(encs, append([]byte{}, node.Encode()...))
		return nil
	})
	if len(keys) == 0 {
		return
	}
	// ask in reverse order, so that an implementation answering in its own order is noticed
	ask := make([]util.Key, len(keys))
	for i := range keys {
		ask[i] = keys[len(keys)-1-i]
	}
	nodes, err := db.MultiGetNode(ask)
	if err != nil {
		t.Fatalf("%s: MultiGetNode of %d listed keys: %v", where, len(ask), err)
	}
	if len(nodes) != len(ask) {
		t.Fatalf("%s: MultiGetNode of %d listed keys returned %d nodes", where, len(ask), len(nodes))
	}
	for i, nd := range nodes {
		j := len(keys) - 1 - i
		if nd == nil || !bytes.Equal(nd.GetHashBytes(), ask[i]) || !bytes.Equal(nd.Encode(), encs[j]) {
			t.Fatalf("%s: MultiGetNode answer %d for key %x: node %v is not the one stored under that key (encoding %x)", where, i, ask[i], nd, encs[j])
		}
		one, err := db.GetNode(ask[i])
		if err != nil || !bytes.Equal(one.GetHashBytes(), ask[i]) || !bytes.Equal(one.Encode(), encs[j]) {
			t.Fatalf("%s: GetNode(%x) = %v, %v: not the node stored under that key", where, ask[i], one, err)
		}
	}
	ev.Class("readback-multiget", 1)
}

func TestStoredNodes(t *testing.T) {
	ev.Rapid(t, 1500, 12000)
	rapid.Check(t, func(rt *rapid.T) {
		kind := rapid.SampledFrom([]string{"memory", "level-mem", "level-pndb", "pndb"}).Draw(rt, "store")
		st := mptkit.NewStore(kind)
		defer st.Close()
		v0 := rapid.SampledFrom([]int64{0, 1, 5, 1 << 31, 1 << 62}).Draw(rt, "v0")
		mpt := mptkit.NewTrie(st.DB, v0, nil)
		model := map[string][]byte{}
		var used []string
		var hist [][]mptkit.Op
		rounds := rapid.IntRange(1, 3).Draw(rt, "rounds")
		version := v0
		sink, sinkDir := mptkit.NewPNodeDB()
		defer mptkit.DropDir(sinkDir)
		for r := 0; r < rounds; r++ {
			ops := mptkit.GenOps(rt, model, &used, gen.Uniform(rt, 1, 12, "n"), 3, fmt.Sprintf("r%d", r))
			hist = append(hist, ops)
			if err := mptkit.Apply(mpt, ops); err != nil {
				rt.Fatalf("history %v: %v", hist, err)
			}
			// save what has changed so far into the persistent sink; a save may also cover the changes of several
			// versions at once (the last round always saves)
			if r+1 == rounds || gen.Chance(rt, 60, "savenow") {
				if err := mpt.SaveChanges(context.Background(), sink, false); err != nil {
					rt.Fatalf("SaveChanges: %v", err)
				}
			} else {
				ev.Class("one-save-covers-several-versions", 1)
			}
			if r+1 < rounds && v0 < 1<<62 {
				version++
				mpt.SetVersion(util.Sequence(version))
			}
		}
		// a caller that overwrites the bytes a lookup returned (on a trie with a cold cache) must not reach stored nodes
		cold := mptkit.NewTrie(st.DB, version, mpt.GetRoot())
		for p := range model {
			if v, err := cold.GetNodeValueRaw(util.Path(p)); err == nil {
				for i := range v {
					v[i] ^= 0xff
				}
			}
		}
		checkStore(rt, kind, st.DB)
		// the persistent sink has received every change set: raw bytes must be self-addressed and complete
		raw := grocksdb.StoreFor(sinkDir).Snapshot("default")
		for k, enc := range raw {
			rn, err := refmpt.Parse(enc)
			if err != nil {
				rt.Fatalf("raw record %x does not parse", k)
			}
			if !bytes.Equal(refmpt.Hash(rn), []byte(k)) {
				rt.Fatalf("raw record under %x hashes to %x", k, refmpt.Hash(rn))
			}
		}
		checkStore(rt, "sink-pndb", sink)
		w := refmpt.WalkFrom(mpt.GetRoot(), mptkit.GetterOfMap(raw), false)
		if len(w.Problems) > 0 || len(w.Missing) > 0 || !mptkit.EqualContent(w.Content, model) {
			rt.Fatalf("history %v: saved trie re-read from raw bytes: problems %v missing %d content %s want %s", hist, w.Problems, len(w.Missing), mptkit.Show(w.Content), mptkit.Show(model))
		}
		// and a fresh trie on the store recomputes to the same content
		fresh := mptkit.NewTrie(st.DB, version, mpt.GetRoot())
		got, err := mptkit.Content(fresh)
		if err != nil || !mptkit.EqualContent(got, model) {
			rt.Fatalf("history %v: fresh trie reads %s (%v), want %s", hist, mptkit.Show(got), err, mptkit.Show(model))
		}
		if ev.WantSample() {
			ev.Sample(map[string]any{"store": kind, "v0": v0, "rounds": hist, "raw_records": len(raw)})
		}
	})
}

// One SaveChanges with more nodes than the persistent store's batch size (256): every raw record must still be
// stored under the hash of its own content and the saved root must re-read completely.
func TestLargeSave(t *testing.T) {
	ev.Rapid(t, 10, 40)
	rapid.Check(t, func(rt *rapid.T) {
		nkeys := gen.Uniform(rt, 260, 520, "nkeys")
		v0 := gen.Pick(rt, []int64{0, 3, 1 << 31}, "v0")
		mpt := mptkit.NewTrie(util.NewMemoryNodeDB(), v0, nil)
		model := map[string][]byte{}
		sink, sinkDir := mptkit.NewPNodeDB()
		defer mptkit.DropDir(sinkDir)
		var baseKeys []string
		if gen.Chance(rt, 50, "onexistingstate") {
			// the target store already holds an older state; the trie works on a level above it, replaces many of its
			// nodes (over two versions) and is saved into it afterwards
			g := mptkit.NewTrie(sink, v0, nil)
			for i := 0; i < nkeys/3; i++ {
				p := fmt.Sprintf("%02x%04x%02x", gen.Uniform(rt, 0, 255, "ga"), i*7919%65536, gen.Uniform(rt, 0, 255, "gb"))
				v := []byte(fmt.Sprintf("base-%d", i))
				if _, err := g.Insert(util.Path(p), mptkit.Val(v)); err != nil {
					rt.Fatalf("HARNESS: insert: %v", err)
				}
				model[p] = v
				baseKeys = append(baseKeys, p)
			}
			mpt = mptkit.NewTrie(util.NewLevelNodeDB(util.NewMemoryNodeDB(), sink, false), v0, g.GetRoot())
		}
		for i := 0; i < nkeys; i++ {
			p := fmt.Sprintf("%02x%04x%02x", gen.Uniform(rt, 0, 255, "a"), i*7919%65536, gen.Uniform(rt, 0, 255, "b"))
			if len(baseKeys) > 0 && i%2 == 0 {
				p = baseKeys[(i/2)%len(baseKeys)]
			}
			v := []byte(fmt.Sprintf("value-%d-%d", i, gen.Uniform(rt, 0, 99, "v")))
			if _, err := mpt.Insert(util.Path(p), mptkit.Val(v)); err != nil {
				rt.Fatalf("HARNESS: insert: %v", err)
			}
			model[p] = v
			if i == nkeys/2 && v0 < 1<<31 && gen.Chance(rt, 50, "bump") {
				mpt.SetVersion(util.Sequence(v0 + 1))
			}
		}
		changes := mpt.GetChangeCount()
		if err := mpt.SaveChanges(context.Background(), sink, false); err != nil {
			rt.Fatalf("SaveChanges of %d nodes: %v", changes, err)
		}
		raw := grocksdb.StoreFor(sinkDir).Snapshot("default")
		for k, enc := range raw {
			rn, err := refmpt.Parse(enc)
			if err != nil {
				rt.Fatalf("large save (%d nodes): raw record %x does not parse", changes, k)
			}
			if !bytes.Equal(refmpt.Hash(rn), []byte(k)) {
				rt.Fatalf("large save (%d nodes): raw record under %x hashes to %x", changes, k, refmpt.Hash(rn))
			}
		}
		w := refmpt.WalkFrom(mpt.GetRoot(), mptkit.GetterOfMap(raw), false)
		if len(w.Problems) > 0 || len(w.Missing) > 0 || !mptkit.EqualContent(w.Content, model) {
			rt.Fatalf("large save (%d keys, %d nodes): re-read from raw bytes: problems %v, %d missing, %d of %d pairs", nkeys, changes, w.Problems, len(w.Missing), len(w.Content), len(model))
		}
		cl := "large-save>256-nodes"
		if changes <= 256 {
			cl = "large-save<=256-nodes"
		}
		ev.Case(fmt.Sprintf("large %d/%d", nkeys, changes), changes > 256, cl)
	})
}

func genKey(rt *rapid.T, label string) []byte {
	k := rapid.SliceOfN(rapid.Byte(), 32, 32).Draw(rt, label)
	if rapid.IntRange(0, 3).Draw(rt, label+"_sep") == 0 {
		k[rapid.IntRange(0, 31).Draw(rt, label+"_pos")] = ':'
	}
	return k
}

func genHexPath(rt *rapid.T, label string, min int) []byte {
	if gen.Chance(rt, 12, label+"_long") {
		// long paths: around the length of a hashed key (64) and far beyond (the library sets no limit)
		n := gen.Pick(rt, []int{63, 64, 65, 100, 128, 200, 215, 216, 230, 247, 248, 255, 256, 300, 1000}, label+"_len")
		b := make([]byte, n)
		for i := range b {
			b[i] = "0123456789abcdef"[gen.Uniform(rt, 0, 15, label+"_c")]
		}
		return b
	}
	return []byte(rapid.StringMatching(fmt.Sprintf("[0-9a-f]{%d,12}", min)).Draw(rt, label))
}

func TestGeneratedNodes(t *testing.T) {
	ev.Rapid(t, 12000, 150000)
	rapid.Check(t, func(rt *rapid.T) {
		origin := rapid.SampledFrom([]int64{0, 1, 2, 77, 1 << 31, 1<<31 + 5, 1 << 62}).Draw(rt, "origin")
		var n util.Node
		var val util.MPTSerializable
		if rapid.IntRange(0, 3).Draw(rt, "hasval") > 0 {
			val = mptkit.Val(mptkit.GenValue(rt, "val"))
		}
		switch rapid.IntRange(0, 3).Draw(rt, "kind") {
		case 0:
			if val == nil {
				val = mptkit.Val([]byte{':'})
			}
			n = util.NewLeafNode(genHexPath(rt, "prefix", 0), genHexPath(rt, "path", 0), util.Sequence(origin), val)
		case 1:
			fn := util.NewFullNode(val)
			for i, on := range rapid.SliceOfN(rapid.Bool(), 16, 16).Draw(rt, "children") {
				if on {
					fn.PutChild("0123456789abcdef"[i], genKey(rt, fmt.Sprintf("c%d", i)))
				}
			}
			n = fn
		case 2:
			n = util.NewExtensionNode(genHexPath(rt, "epath", 1), genKey(rt, "ekey"))
		default:
			vn := util.NewValueNode()
			if val == nil {
				val = mptkit.Val([]byte{0})
			}
			vn.SetValue(val)
			n = vn
		}
		n.SetOrigin(util.Sequence(origin))
		if rapid.Bool().Draw(rt, "newer") && origin < 1<<62 {
			n.SetVersion(util.Sequence(origin + int64(rapid.IntRange(1, 1000).Draw(rt, "dv"))))
		}
		nt, kind := checkNode(rt, "generated", nil, n)
		// stores keep it under its own hash
		if kind != "value" {
			for name, db := range map[string]util.NodeDB{"memory": util.NewMemoryNodeDB(), "level": util.NewLevelNodeDB(util.NewMemoryNodeDB(), util.NewMemoryNodeDB(), false)} {
				key := n.GetHashBytes()
				if err := db.PutNode(key, n); err != nil {
					rt.Fatalf("%s PutNode: %v", name, err)
				}
				got, err := db.GetNode(key)
				if err != nil || !bytes.Equal(got.Encode(), n.Encode()) || !bytes.Equal(got.GetHashBytes(), key) {
					rt.Fatalf("%s store returns a different node for %x (%v)", name, key, err)
				}
			}
		}
		cls := []string{"node:" + kind, "generated"}
		if origin >= 1<<31 {
			cls = append(cls, "big-origin")
		}
		ev.Case(string(n.Encode()), nt, cls...)
		if nt && ev.WantSample() {
			ev.Sample(map[string]any{"kind": kind, "origin": origin, "encoding_hex": fmt.Sprintf("%x", n.Encode())})
		}
	})
}

// Persistent store: single and batched puts of generated nodes are addressed by their own hash in the raw bytes.
func TestPersistentPut(t *testing.T) {
	ev.Rapid(t, 300, 4000)
	rapid.Check(t, func(rt *rapid.T) {
		p, dir := mptkit.NewPNodeDB()
		defer mptkit.DropDir(dir)
		origin := rapid.SampledFrom([]int64{0, 3, 1 << 31, 1 << 62}).Draw(rt, "origin")
		var keys []util.Key
		var nodes []util.Node
		for i := 0; i < rapid.IntRange(1, 6).Draw(rt, "n"); i++ {
			var n util.Node
			if rapid.Bool().Draw(rt, "leaf") {
				n = util.NewLeafNode(genHexPath(rt, "prefix", 0), genHexPath(rt, "path", 0), util.Sequence(origin), mptkit.Val(mptkit.GenValue(rt, "v")))
			} else {
				n = util.NewExtensionNode(genHexPath(rt, "ep", 1), genKey(rt, "ek"))
				n.SetOrigin(util.Sequence(origin))
			}
			if rapid.Bool().Draw(rt, "newer") && origin < 1<<62 {
				n.SetVersion(util.Sequence(origin + int64(rapid.IntRange(1, 9).Draw(rt, "dv"))))
			}
			keys = append(keys, n.GetHashBytes())
			nodes = append(nodes, n)
		}
		if rapid.Bool().Draw(rt, "batch") {
			if err := p.MultiPutNode(keys, nodes); err != nil {
				rt.Fatalf("MultiPutNode: %v", err)
			}
		} else {
			for i := range keys {
				if err := p.PutNode(keys[i], nodes[i]); err != nil {
					rt.Fatalf("PutNode: %v", err)
				}
			}
		}
		raw := grocksdb.StoreFor(dir).Snapshot("default")
		for i, k := range keys {
			enc, ok := raw[string(k)]
			if !ok {
				rt.Fatalf("node %d not stored under its hash", i)
			}
			rn, err := refmpt.Parse(enc)
			if err != nil || !bytes.Equal(refmpt.Hash(rn), k) || !bytes.Equal(enc, nodes[i].Encode()) {
				rt.Fatalf("raw record of node %d is not the node's own encoding", i)
			}
			got, err := p.GetNode(k)
			if err != nil || !bytes.Equal(got.GetHashBytes(), k) {
				rt.Fatalf("GetNode(%x): %v", k, err)
			}
		}
		ev.Case(fmt.Sprintf("pput%x", keys), origin >= 1<<31, "persistent-put")
	})
}

// Sizes: every body length from a few bytes to beyond two 512-byte blocks for each node kind, and values at the size
// limit on the node kinds that carry one (a leaf, a branch with all sixteen children, a value node).
func TestNodeSizes(t *testing.T) {
	ev.Guard(t, "TestNodeSizes", func() {
		seed := ev.SeedFor("TestNodeSizes")
		full := func(val []byte) *util.FullNode {
			fn := util.NewFullNode(mptkit.Val(val))
			for i := 0; i < 16; i++ {
				k := sha3.Sum256([]byte{byte(i), byte(seed)})
				fn.PutChild("0123456789abcdef"[i], k[:])
			}
			return fn
		}
		value := func(n int, salt byte) []byte {
			v := bytes.Repeat([]byte{0x3a, 0x00, 0x5a, salt}, n/4+1)[:n]
			if n > 0 {
				v[n-1] = 0x77
			}
			return v
		}
		for L := 1; L <= 1300; L++ {
			path := []byte("0123456789abcdef0123456789abcdef0123456789abcdef0123456789abcdef")[:int((seed+uint64(L))%65)]
			nodes := map[string]util.Node{
				"leaf":   util.NewLeafNode([]byte("ab"), path, util.Sequence(seed%5), mptkit.Val(value(L, byte(L)))),
				"branch": full(value(L, byte(L))),
			}
			vn := util.NewValueNode()
			vn.SetValue(mptkit.Val(value(L, byte(L))))
			nodes["value"] = vn
			for kind, n := range nodes {
				checkNode(t, fmt.Sprintf("size sweep, %s with a value of %d bytes", kind, L), nil, n)
				ev.Case(fmt.Sprintf("sweep/%s/%d", kind, L), len(n.Encode())%512 == 0, "size-sweep:"+kind)
			}
		}
		// hashes only, far beyond: every value length up to three times 8704 bytes on a leaf (the sponge's block size is
		// 136 bytes; chunked hashing would use multiples of it)
		for L := 1301; L <= 26200; L++ {
			n := util.NewLeafNode([]byte("ab"), []byte("cdef01"), util.Sequence(seed%5), mptkit.Val(value(L, byte(L))))
			rn, err := refmpt.Parse(n.Encode())
			if err != nil || !bytes.Equal(refmpt.Hash(rn), n.GetHashBytes()) {
				t.Fatalf("leaf with a value of %d bytes: hash %x, reference hash of its encoding %x (%v)", L, n.GetHashBytes(), refmpt.Hash(rn), err)
			}
		}
		ev.Case("hash-sweep/1301..26200", true, "hash-only-size-sweep")
		for _, short := range []int{0, 1, 15, 16, 17 + int(seed%400), 1040} {
			L := util.MPTMaxAllowableNodeSize - short
			for kind, n := range map[string]util.Node{
				"leaf":   util.NewLeafNode([]byte("ab"), []byte("cdef01"), 1, mptkit.Val(value(L, 9))),
				"branch": full(value(L, 9)),
			} {
				checkNode(t, fmt.Sprintf("%s with a value of %d bytes (limit - %d)", kind, L, short), nil, n)
				ev.Case(fmt.Sprintf("limit/%s/%d", kind, L), true, "value-at-the-size-limit:"+kind)
			}
		}
	})
}

// A growing trie, saved after every insert into a fresh store: the saves have (nearly) every size from 1 to beyond
// 1000 (thorough: 2000) changed nodes; each store must hold exactly what the root needs.
func TestSaveSizeSweep(t *testing.T) {
	ev.Guard(t, "TestSaveSizeSweep", func() {
		x := ev.SeedFor("TestSaveSizeSweep") | 1
		next := func() uint64 { x ^= x << 13; x ^= x >> 7; x ^= x << 17; return x }
		covered := map[int]bool{}
		limit, passes := 1100, 3
		if ev.Thorough() {
			limit, passes = 2100, 4
		}
		for pass := 0; pass < passes; pass++ {
			mpt := mptkit.NewTrie(util.NewMemoryNodeDB(), int64(pass), nil)
			keys := 0
			seenKey := map[string]bool{}
			for mpt.GetChangeCount() < limit {
				r := next()
				p := fmt.Sprintf("%06x", r&0xffffff)
				if seenKey[p] {
					continue
				}
				seenKey[p] = true
				if _, err := mpt.Insert(util.Path(p), mptkit.Val([]byte{byte(r >> 24), byte(r >> 32), 0x3a})); err != nil {
					t.Fatalf("insert: %v", err)
				}
				keys++
				n := mpt.GetChangeCount()
				if covered[n] && n%1000 > 3 {
					continue
				}
				covered[n] = true
				target := util.NewMemoryNodeDB()
				if err := mpt.SaveChanges(context.Background(), target, false); err != nil {
					t.Fatalf("SaveChanges of %d changed nodes: %v", n, err)
				}
				if got := target.Size(context.Background()); got != int64(n) {
					t.Fatalf("a save of %d changed nodes left %d nodes in an empty target store", n, got)
				}
				w := refmpt.WalkFrom(mpt.GetRoot(), mptkit.GetterOf(target), false)
				if len(w.Missing) > 0 || len(w.Problems) > 0 || len(w.Content) != keys {
					t.Fatalf("after a save of %d changed nodes (%d keys) the target store resolves %d keys from the root, %d nodes missing, problems %v", n, keys, len(w.Content), len(w.Missing), w.Problems)
				}
			}
		}
		for _, must := range []int{1000, 2000} {
			if !covered[must] && must < limit {
				ev.Class("save-size-sweep-skipped-"+fmt.Sprint(must), 1)
			}
		}
		ev.Case(fmt.Sprintf("save-sweep/%d", len(covered)), true, "save-size-sweep")
		ev.Extra("save_sizes_covered", len(covered))
	})
}
