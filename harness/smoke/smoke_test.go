package smoke

import (
	"testing"

	"github.com/0chain/common/core/util"
	_ "github.com/anishathalye/porcupine"
	"pgregory.net/rapid"
)

func TestBuild(t *testing.T) {
	db, err := util.NewPNodeDB("x", "y")
	if err != nil {
		t.Fatal(err)
	}
	_ = db
	rapid.Check(t, func(t *rapid.T) { _ = rapid.Int().Draw(t, "i") })
}
