// Package ev collects what a check run actually covered (evaluations, distinct
// non-trivial cases, class histogram, samples) and the run parameters every
// test package derives from the environment the driver sets.
package ev

import (
	"encoding/binary"
	"encoding/json"
	"flag"
	"fmt"
	"hash/fnv"
	"os"
	"path/filepath"
	"runtime/debug"
	"sort"
	"strconv"
	"strings"
	"sync"
	"testing"
	"time"

	"github.com/0chain/common/core/logging"
	"go.uber.org/zap"
)

// Run parameters (from the environment, set by bin/check).
var (
	Tier    = getenv("VERIF_TIER", "quick")
	Seed    = uint64(atoi(getenv("VERIF_SEED", "1")))
	Shard   = atoi(getenv("VERIF_SHARD", "0"))
	NShards = max(1, atoi(getenv("VERIF_NSHARDS", "1")))
	// Scale multiplies every case count (used by background sweeps).
	Scale = atof(getenv("VERIF_SCALE", "1"))
)

func getenv(k, d string) string {
	if v := os.Getenv(k); v != "" {
		return v
	}
	return d
}
func atoi(s string) int {
	n, err := strconv.ParseInt(s, 10, 64)
	if err != nil {
		return 0
	}
	return int(n)
}
func atof(s string) float64 {
	f, err := strconv.ParseFloat(s, 64)
	if err != nil || f <= 0 {
		return 1
	}
	return f
}

// Thorough reports whether the thorough tier is running.
func Thorough() bool { return Tier == "thorough" }

// N picks a case count by tier, scaled.
func N(quick, thorough int) int {
	n := quick
	if Thorough() {
		n = thorough
	}
	n = int(float64(n) * Scale)
	if n < 1 {
		n = 1
	}
	return n
}

// SeedFor derives a non-zero PRNG seed from VERIF_SEED, the shard and a name.
func SeedFor(name string) uint64 {
	h := fnv.New64a()
	fmt.Fprintf(h, "%d/%d/%s", Seed, Shard, name)
	s := h.Sum64()
	if s == 0 {
		s = 1
	}
	return s
}

// Rapid sets rapid's flags for the next rapid.Check call in test t:
// checks by tier, seed derived from VERIF_SEED/shard/test name. When the
// driver replays a fail file it sets VERIF_REPLAY and the flags are left alone.
func Rapid(t testing.TB, quick, thorough int) {
	if os.Getenv("VERIF_REPLAY") != "" {
		return
	}
	must(flag.Set("rapid.checks", strconv.Itoa(N(quick, thorough))))
	must(flag.Set("rapid.seed", strconv.FormatUint(SeedFor(t.Name()), 10)))
	must(flag.Set("rapid.shrinktime", "12s"))
}

// RapidSteps sets the average number of t.Repeat actions.
func RapidSteps(n int) { must(flag.Set("rapid.steps", strconv.Itoa(n))) }

func must(err error) {
	if err != nil {
		panic(err)
	}
}

type stats struct {
	mu          sync.Mutex
	evaluations int64
	nontrivial  map[uint64]struct{}
	classes     map[string]int64
	excluded    map[string]int64
	samples     []any
	lateSamples []any
	extra       map[string]any
	meta        Meta
	start       time.Time
}

// Meta is static description of the check, supplied by the test package.
type Meta struct {
	Property    string   `json:"property_id"`
	Level       string   `json:"level"`
	Rule        string   `json:"rule"`
	Assumptions []string `json:"assumptions"`
	Exhaustive  bool     `json:"exhaustive,omitempty"`
}

var st = &stats{
	nontrivial: map[uint64]struct{}{},
	classes:    map[string]int64{},
	excluded:   map[string]int64{},
	extra:      map[string]any{},
	start:      time.Now(),
}

// SetMeta records the static description.
func SetMeta(m Meta) {
	m.Rule += " Generator features that were added while the check was confronted with independently seeded changes are described in DESIGN.md section 6.6 (one table per round); the class counts of this file show how often each of them was drawn in this run."
	st.mu.Lock()
	st.meta = m
	st.mu.Unlock()
}

// Hash64 hashes a canonical case description.
func Hash64(s string) uint64 {
	h := fnv.New64a()
	h.Write([]byte(s))
	return h.Sum64()
}

// Case records one executed case. desc is its canonical description (hashed for
// distinctness); nontrivial says whether it satisfies the property's stated
// non-triviality rule; classes are histogram labels.
func Case(desc string, nontrivial bool, classes ...string) {
	st.mu.Lock()
	st.evaluations++
	if nontrivial {
		st.nontrivial[Hash64(desc)] = struct{}{}
	}
	for _, c := range classes {
		st.classes[c]++
	}
	st.mu.Unlock()
}

// Evals adds n evaluations that are not separately described.
func Evals(n int) { st.mu.Lock(); st.evaluations += int64(n); st.mu.Unlock() }

// Class bumps a histogram label without counting an evaluation.
func Class(c string, n int) { st.mu.Lock(); st.classes[c] += int64(n); st.mu.Unlock() }

// Excluded counts a case (or draw) skipped because of a listed known finding.
func Excluded(what string) { st.mu.Lock(); st.excluded[what]++; st.mu.Unlock() }

// Extra records a free-form fact in coverage.
func Extra(k string, v any) { st.mu.Lock(); st.extra[k] = v; st.mu.Unlock() }

// ExtraAdd accumulates a numeric fact in coverage.
func ExtraAdd(k string, n int64) {
	st.mu.Lock()
	cur, _ := st.extra[k].(int64)
	st.extra[k] = cur + n
	st.mu.Unlock()
}

// Sample keeps a few written-out cases: the first three and the most recent three.
func Sample(v any) {
	st.mu.Lock()
	if len(st.samples) < 3 {
		st.samples = append(st.samples, v)
	} else {
		st.lateSamples = append(st.lateSamples, v)
		if len(st.lateSamples) > 3 {
			st.lateSamples = st.lateSamples[1:]
		}
	}
	st.mu.Unlock()
}

// WantSample says whether the caller should bother rendering a sample now
// (cheap throttle: every 97th non-trivial case after the first three).
var sampleTick int64

func WantSample() bool {
	st.mu.Lock()
	defer st.mu.Unlock()
	sampleTick++
	return len(st.samples) < 3 || sampleTick%97 == 0
}

// ReplayDir is where tests that own their replay format write failing cases.
func ReplayDir() string {
	d := getenv("VERIF_REPLAY_DIR", "")
	if d == "" {
		d = filepath.Join(os.TempDir(), "verif-replays")
	}
	_ = os.MkdirAll(d, 0o755)
	return d
}

// WriteReplay stores a failing case as JSON and prints the marker line the
// driver turns into a VIOLATION line.
func WriteReplay(test string, v any) string {
	b, _ := json.MarshalIndent(map[string]any{"test": test, "case": v}, "", " ")
	name := filepath.Join(ReplayDir(), fmt.Sprintf("%s-%d-%d.json", test, time.Now().UnixNano(), os.Getpid()))
	_ = os.WriteFile(name, b, 0o644)
	fmt.Printf("VERIF-REPLAY %s\n", name)
	return name
}

// LoadReplay reads the case of a JSON replay into v if VERIF_REPLAY names one
// for this test; ok is false otherwise.
func LoadReplay(test string, v any) (ok bool) {
	p := os.Getenv("VERIF_REPLAY")
	if p == "" || filepath.Ext(p) != ".json" {
		return false
	}
	b, err := os.ReadFile(p)
	if err != nil {
		return false
	}
	var w struct {
		Test string          `json:"test"`
		Case json.RawMessage `json:"case"`
	}
	if json.Unmarshal(b, &w) != nil || w.Test != test {
		return false
	}
	return json.Unmarshal(w.Case, v) == nil
}

// Flush writes the stats file ($VERIF_STATS) and the hash sidecar.
func Flush() {
	p := os.Getenv("VERIF_STATS")
	if p == "" {
		return
	}
	st.mu.Lock()
	defer st.mu.Unlock()
	hs := make([]uint64, 0, len(st.nontrivial))
	for h := range st.nontrivial {
		hs = append(hs, h)
	}
	sort.Slice(hs, func(i, j int) bool { return hs[i] < hs[j] })
	hb := make([]byte, 8*len(hs))
	for i, h := range hs {
		binary.LittleEndian.PutUint64(hb[8*i:], h)
	}
	_ = os.WriteFile(p+".hashes", hb, 0o644)
	out := map[string]any{
		"meta":                st.meta,
		"evaluations":         st.evaluations,
		"distinct_nontrivial": len(hs),
		"classes":             st.classes,
		"excluded":            st.excluded,
		"samples":             append(append([]any{}, st.samples...), st.lateSamples...),
		"extra":               st.extra,
		"wall_s":              time.Since(st.start).Seconds(),
		"shard":               Shard,
	}
	b, _ := json.MarshalIndent(out, "", " ")
	_ = os.WriteFile(p, b, 0o644)
}

// Main is the TestMain body shared by all packages.
func Main(m *testing.M) {
	logging.Logger = zap.NewNop()
	logging.N2n = zap.NewNop()
	code := m.Run()
	Flush()
	os.Exit(code)
}

// Guard turns a panic of the code under test into a test failure (plain tests
// and fuzz targets only; rapid recovers panics itself).
func Guard(t interface{ Fatalf(string, ...any) }, what string, fn func()) {
	defer func() {
		if r := recover(); r != nil {
			t.Fatalf("panic in %s: %v\n%s", what, r, debug.Stack())
		}
	}()
	fn()
}

// Witness runs the minimal reproduction of a defect that was found earlier.
// fn reports what fails ("" when the defect does not reproduce). A panic counts
// as reproduced. The driver maps a reproduced witness to KNOWN-FINDING (listed
// as known) or VIOLATION (anything else, in particular a fixed one that returned).
func Witness(t testing.TB, id string, fn func() string) {
	what := func() (w string) {
		defer func() {
			if r := recover(); r != nil {
				w = fmt.Sprintf("panic: %v", r)
			}
		}()
		return fn()
	}()
	only := ""
	var rc struct{ ID string }
	if LoadReplay("TestWitnesses", &rc) {
		only = rc.ID
	}
	if only != "" && only != id {
		return
	}
	Class("witness-replayed", 1)
	if what != "" {
		fmt.Printf("VERIF-WITNESS %s reproduced %s\n", id, what)
		if only == id {
			t.Errorf("witness %s reproduced: %s", id, what)
		}
	}
}

// Known reports whether a finding id is listed as known (generators then
// exclude exactly that class and count the exclusion).
func Known(id string) bool {
	for _, k := range strings.Split(os.Getenv("VERIF_KNOWN"), ",") {
		if k == id {
			return true
		}
	}
	return false
}
