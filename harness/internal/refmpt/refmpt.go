// Package refmpt is an independent reference for the state trie: canonical
// shape and root hash computed from content, a parser for the stored node
// encoding and a reachability walker over raw store bytes. It is written from
// the published byte format only and imports nothing from core/util.
//
// Format. Stored encoding: type byte (2 leaf, 4 branch, 8 extension),
// int64-LE version, int64-LE origin, body. Node hash = sha3-256(int64-LE origin || body).
//
//	leaf body      = prefix ':' path ':' value
//	branch body    = 16 x ( lower-hex(child hash) ':' ) || value
//	extension body = path ':' raw child hash
//
// Canonical shape for a content set (paths are strings of hex nibbles):
//
//	one pair           -> leaf carrying the whole remaining path (prefix = path consumed so far)
//	common nibble prefix of all remaining paths non-empty -> extension to the branch below
//	otherwise          -> branch, value = the pair whose remaining path is empty (if any)
package refmpt

import (
	"bytes"
	"encoding/binary"
	"encoding/hex"
	"errors"
	"fmt"
	"sort"

	"golang.org/x/crypto/sha3"
)

const (
	TLeaf   = 2
	TBranch = 4
	TExt    = 8
)

// Node is a parsed stored node.
type Node struct {
	Type     byte
	Version  int64
	Origin   int64
	Prefix   []byte // leaf
	Path     []byte // leaf, extension
	Value    []byte // leaf, branch (nil = none)
	Children [16][]byte
	Child    []byte // extension
}

func h(b []byte) []byte { d := sha3.Sum256(b); return d[:] }

func body(n *Node) []byte {
	var buf bytes.Buffer
	switch n.Type {
	case TLeaf:
		buf.Write(n.Prefix)
		buf.WriteByte(':')
		buf.Write(n.Path)
		buf.WriteByte(':')
		buf.Write(n.Value)
	case TBranch:
		for i := 0; i < 16; i++ {
			if n.Children[i] != nil {
				buf.WriteString(hex.EncodeToString(n.Children[i]))
			}
			buf.WriteByte(':')
		}
		buf.Write(n.Value)
	case TExt:
		buf.Write(n.Path)
		buf.WriteByte(':')
		buf.Write(n.Child)
	}
	return buf.Bytes()
}

// Hash is the node's address.
func Hash(n *Node) []byte {
	var o [8]byte
	binary.LittleEndian.PutUint64(o[:], uint64(n.Origin))
	return h(append(o[:], body(n)...))
}

// Encode is the stored form.
func Encode(n *Node) []byte {
	out := []byte{n.Type}
	var w [8]byte
	binary.LittleEndian.PutUint64(w[:], uint64(n.Version))
	out = append(out, w[:]...)
	binary.LittleEndian.PutUint64(w[:], uint64(n.Origin))
	out = append(out, w[:]...)
	return append(out, body(n)...)
}

var ErrParse = errors.New("refmpt: malformed encoding")

// Parse decodes a stored node.
func Parse(enc []byte) (*Node, error) {
	if len(enc) < 17 {
		return nil, ErrParse
	}
	n := &Node{Type: enc[0]}
	n.Version = int64(binary.LittleEndian.Uint64(enc[1:9]))
	n.Origin = int64(binary.LittleEndian.Uint64(enc[9:17]))
	b := enc[17:]
	switch n.Type {
	case TLeaf:
		i := bytes.IndexByte(b, ':')
		if i < 0 {
			return nil, ErrParse
		}
		n.Prefix = append([]byte{}, b[:i]...)
		b = b[i+1:]
		i = bytes.IndexByte(b, ':')
		if i < 0 {
			return nil, ErrParse
		}
		n.Path = append([]byte{}, b[:i]...)
		if len(b[i+1:]) > 0 {
			n.Value = append([]byte{}, b[i+1:]...)
		}
	case TBranch:
		for c := 0; c < 16; c++ {
			i := bytes.IndexByte(b, ':')
			if i < 0 {
				return nil, ErrParse
			}
			if i > 0 {
				k, err := hex.DecodeString(string(b[:i]))
				if err != nil || len(k) != 32 {
					return nil, ErrParse
				}
				n.Children[c] = k
			}
			b = b[i+1:]
		}
		if len(b) > 0 {
			n.Value = append([]byte{}, b...)
		}
	case TExt:
		i := bytes.IndexByte(b, ':')
		if i < 0 {
			return nil, ErrParse
		}
		n.Path = append([]byte{}, b[:i]...)
		n.Child = append([]byte{}, b[i+1:]...)
	default:
		return nil, ErrParse
	}
	return n, nil
}

const nibbles = "0123456789abcdef"

func nib(c byte) int { return bytes.IndexByte([]byte(nibbles), c) }

// Built is a canonical trie for a content set.
type Built struct {
	Root  []byte           // nil for empty content
	Nodes map[string]*Node // by raw hash
	Order []string         // creation order (post-order)
}

type pair struct {
	rest  string
	value []byte
}

// Build constructs the canonical trie of content (path -> value, values non-empty) with every node at origin.
func Build(content map[string][]byte, origin int64) *Built {
	b := &Built{Nodes: map[string]*Node{}}
	var ps []pair
	for p, v := range content {
		ps = append(ps, pair{p, v})
	}
	sort.Slice(ps, func(i, j int) bool { return ps[i].rest < ps[j].rest })
	b.Root = b.build("", ps, origin)
	return b
}

func (b *Built) add(n *Node) []byte {
	k := Hash(n)
	if _, ok := b.Nodes[string(k)]; !ok {
		b.Nodes[string(k)] = n
		b.Order = append(b.Order, string(k))
	}
	return k
}

func (b *Built) build(prefix string, ps []pair, origin int64) []byte {
	if len(ps) == 0 {
		return nil
	}
	if len(ps) == 1 {
		return b.add(&Node{Type: TLeaf, Version: origin, Origin: origin, Prefix: []byte(prefix), Path: []byte(ps[0].rest), Value: ps[0].value})
	}
	// common prefix
	cp := ps[0].rest
	for _, p := range ps[1:] {
		i := 0
		for i < len(cp) && i < len(p.rest) && cp[i] == p.rest[i] {
			i++
		}
		cp = cp[:i]
	}
	if len(cp) > 0 {
		sub := make([]pair, len(ps))
		for i, p := range ps {
			sub[i] = pair{p.rest[len(cp):], p.value}
		}
		child := b.build(prefix+cp, sub, origin)
		return b.add(&Node{Type: TExt, Version: origin, Origin: origin, Path: []byte(cp), Child: child})
	}
	n := &Node{Type: TBranch, Version: origin, Origin: origin}
	groups := map[byte][]pair{}
	for _, p := range ps {
		if p.rest == "" {
			n.Value = p.value
			continue
		}
		groups[p.rest[0]] = append(groups[p.rest[0]], pair{p.rest[1:], p.value})
	}
	for c, g := range groups {
		n.Children[nib(c)] = b.build(prefix+string(c), g, origin)
	}
	return b.add(n)
}

// Root is the canonical root hash for content at a single origin.
func Root(content map[string][]byte, origin int64) []byte { return Build(content, origin).Root }

// Getter fetches the stored encoding of a node.
type Getter func(key []byte) ([]byte, bool)

// Walk is the result of a traversal from a root over raw store bytes.
type Walk struct {
	Reachable map[string]*Node  // present nodes reached, by raw key
	Missing   map[string]bool   // keys referenced by a present node (or the root itself) but absent
	Content   map[string][]byte // full path -> value for every value reached
	BrokenAt  map[string]bool   // full paths below which something is missing (path prefix at the missing node)
	Problems  []string          // hash mismatches, parse errors, non-canonical shapes
	Kinds     map[byte]int
}

// WalkFrom traverses the trie under root. checkShape adds canonical-shape findings to Problems.
func WalkFrom(root []byte, get Getter, checkShape bool) *Walk {
	w := &Walk{Reachable: map[string]*Node{}, Missing: map[string]bool{}, Content: map[string][]byte{}, BrokenAt: map[string]bool{}, Kinds: map[byte]int{}}
	if len(root) == 0 {
		return w
	}
	w.walk(root, "", get, checkShape, 0)
	return w
}

func (w *Walk) problem(f string, a ...any) { w.Problems = append(w.Problems, fmt.Sprintf(f, a...)) }

func (w *Walk) walk(key []byte, path string, get Getter, shape bool, parentType byte) *Node {
	// a store in which nodes sit under foreign keys can contain cycles: no honest path is anywhere near this long
	if len(path) > 2000 {
		if len(w.Problems) < 50 {
			w.problem("the walk reached a path of %d elements below %x: the stored nodes form a cycle or an absurdly deep chain", len(path), key)
		}
		return nil
	}
	enc, ok := get(key)
	if !ok {
		w.Missing[string(key)] = true
		w.BrokenAt[path] = true
		return nil
	}
	n, err := Parse(enc)
	if err != nil {
		w.problem("node %x at %q does not parse", key, path)
		return nil
	}
	if !bytes.Equal(Hash(n), key) {
		w.problem("node stored under %x at %q hashes to %x (type %d origin %d)", key, path, Hash(n), n.Type, n.Origin)
	}
	w.Reachable[string(key)] = n
	w.Kinds[n.Type]++
	switch n.Type {
	case TLeaf:
		if shape {
			if string(n.Prefix) != path {
				w.problem("leaf %x at %q carries prefix %q", key, path, n.Prefix)
			}
			if n.Value == nil {
				w.problem("leaf %x at %q has no value", key, path)
			}
			if parentType == TExt {
				w.problem("extension points to leaf at %q", path)
			}
		}
		if n.Value != nil {
			w.Content[path+string(n.Path)] = n.Value
		}
	case TBranch:
		if n.Value != nil {
			w.Content[path] = n.Value
		}
		cnt := 0
		for i := 0; i < 16; i++ {
			if n.Children[i] != nil {
				cnt++
				w.walk(n.Children[i], path+string(nibbles[i]), get, shape, TBranch)
			}
		}
		if shape {
			if cnt == 0 {
				w.problem("branch %x at %q has no children", key, path)
			}
			if cnt == 1 && n.Value == nil {
				w.problem("branch %x at %q has one child and no value", key, path)
			}
		}
	case TExt:
		if shape {
			if len(n.Path) == 0 {
				w.problem("extension %x at %q has an empty path", key, path)
			}
			if parentType == TExt {
				w.problem("extension points to extension at %q", path)
			}
		}
		w.walk(n.Child, path+string(n.Path), get, shape, TExt)
	}
	return n
}
