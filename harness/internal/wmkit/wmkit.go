// Package wmkit is the shared machine for the weighted-trie checks (C09-C13):
// key/value generators built to reach every trie shape, a model of the live
// set, and the explicit "observe" action (hash readers mutate dirty state, so
// they are never an every-step invariant).
package wmkit

import (
	"bytes"
	"fmt"
	"sort"
	"strings"
	"sync"

	"github.com/0chain/common/core/util/wmpt"
	"pgregory.net/rapid"

	"verif/harness/internal/ev"
	"verif/harness/internal/gen"
	"verif/harness/internal/memkv"
	"verif/harness/internal/refwmpt"
)

// Known findings of the weighted trie that several generators have to steer around
// (one root cause is attributed to one property; the exclusion switches are shared).
const (
	FindShared  = "C11-gc-collects-node-shared-by-two-keys"
	FindDirtyGC = "C11-gc-while-dirty-destroys-committed-root"
	FindRootRd  = "C11-hash-read-while-dirty-makes-commit-write-nothing"
)

// UniqueValues decides whether two keys may get equal values in this case.
func UniqueValues(rt *rapid.T) bool {
	if ev.Known(FindShared) {
		ev.Excluded(FindShared + ": two keys never get equal values")
		return true
	}
	return gen.Chance(rt, 70, "uniquevalues")
}

var keyAlphabet = []byte{0x00, 0x01, 0x10, 0x11, 0xab, 0xff, 0xa0, 0x0f}

// GenKeyPool draws n distinct 32-byte keys that share prefixes of every length:
// each new key copies an earlier key up to a drawn byte position, diverges
// there in the high or only the low nibble, and continues with alphabet bytes;
// some keys differ from another only in the last nibble.
func GenKeyPool(rt *rapid.T, n int) [][]byte {
	var pool [][]byte
	seen := map[string]bool{}
	for tries := 0; len(pool) < n && tries < 8*n; tries++ {
		k := make([]byte, 32)
		if len(pool) == 0 || gen.Chance(rt, 15, "freshkey") {
			for i := range k {
				k[i] = gen.Pick(rt, keyAlphabet, "kb")
			}
		} else {
			base := gen.Pick(rt, pool, "kbase")
			copy(k, base)
			if gen.Chance(rt, 12, "sibling") {
				k[31] = base[31]&0xf0 | (base[31]+1+byte(gen.Uniform(rt, 0, 13, "sn")))&0x0f
			} else {
				p := gen.Uniform(rt, 0, 31, "kdiv")
				if gen.Chance(rt, 50, "lownibble") {
					k[p] = base[p]&0xf0 | (base[p]+1+byte(gen.Uniform(rt, 0, 13, "ln")))&0x0f
				} else {
					k[p] = (base[p]+0x10+byte(gen.Uniform(rt, 0, 13, "hn"))<<4)&0xf0 | base[p]&0x0f
				}
				for i := p + 1; i < 32; i++ {
					k[i] = gen.Pick(rt, keyAlphabet, "kb2")
				}
			}
		}
		if !seen[string(k)] {
			seen[string(k)] = true
			pool = append(pool, k)
		}
	}
	return pool
}

// WeightOf is the rule "a key's weight is determined by its value" (the quantifier of C09 says so; an update that
// changes only the weight is outside it - the library ignores such an update, see DESIGN §6.4). Mostly 1..7; one value
// in sixteen (by its third byte) gets a wide weight that uses up to six bytes of the eight-byte encoding.
func WeightOf(v []byte) uint64 {
	w := 1 + uint64(v[0]%7)
	if len(v) > 2 && v[2]%16 == 15 {
		w <<= 8 * uint(1+v[1]%5)
	}
	return w
}

// GenValue draws a value of 1..8 bytes. unique: the value embeds the key index
// and a counter so no two keys ever share a value.
func GenValue(rt *rapid.T, keyIdx int, counter *int, unique bool) []byte {
	*counter++
	if unique {
		v := []byte{byte(gen.Uniform(rt, 0, 13, "vw")), byte(keyIdx), byte(*counter), byte(*counter >> 8)}
		// a quarter of the values are long (around and beyond the 32-byte hash size)
		if gen.Chance(rt, 25, "longvalue") {
			tail := gen.Pick(rt, []int{27, 28, 29, 44, 200}, "vtail")
			for i := 0; i < tail; i++ {
				v = append(v, byte(i*7+keyIdx+*counter))
			}
		}
		return v
	}
	n := gen.Uniform(rt, 1, 3, "vn")
	v := make([]byte, n)
	for i := range v {
		v[i] = byte(gen.Uniform(rt, 0, 3, "vb"))
	}
	return v
}

// Machine is a trie plus its model.
type Machine struct {
	T     *wmpt.WeightedMerkleTrie
	DB    *memkv.Store
	Model map[string]refwmpt.Entry
	Log   []string
	// Dirty: updates/deletes since the last trie commit. Unwritten: a trie commit's batch not yet written.
	Dirty bool
	Fail  func(string, ...any)
	// Past[key]: every value the key ever had (for updates that go back to an earlier value)
	Past   map[string][][]byte
	delSeq int
	// Graveyard: the entry each removed key had when it was removed last
	Graveyard map[string]refwmpt.Entry
}

func New(db *memkv.Store, fail func(string, ...any)) *Machine {
	m := &Machine{DB: db, Model: map[string]refwmpt.Entry{}, Fail: fail}
	if db == nil {
		m.T = wmpt.New(nil, nil)
	} else {
		m.T = wmpt.New(nil, db)
	}
	return m
}

func (m *Machine) Logf(f string, a ...any) { m.Log = append(m.Log, fmt.Sprintf(f, a...)) }

// History renders the log.
func (m *Machine) History() string { return strings.Join(m.Log, "; ") }

// Entries returns the model as a slice.
func Entries(model map[string]refwmpt.Entry) []refwmpt.Entry {
	out := make([]refwmpt.Entry, 0, len(model))
	for _, e := range model {
		out = append(out, e)
	}
	sort.Slice(out, func(i, j int) bool { return bytes.Compare(out[i].Key, out[j].Key) < 0 })
	return out
}

func short(k []byte) string { return fmt.Sprintf("%x..%x", k[:2], k[30:]) }

// Update sets key to value with the weight given by the rule WeightOf.
func (m *Machine) Update(key, value []byte) { m.UpdateW(key, value, WeightOf(value)) }

// Rewrite stores an entry again exactly as it is (same value, same weight).
func (m *Machine) Rewrite(e refwmpt.Entry) {
	m.UpdateW(e.Key, append([]byte(nil), e.Value...), e.Weight)
}

// UpdateW sets key to (value, w) and checks the running total.
func (m *Machine) UpdateW(key, value []byte, w uint64) {
	m.Logf("upd %s=%x(w%d)", short(key), value, w)
	if err := m.T.Update(key, value, w); err != nil {
		m.Fail("Update(%x): %v", key, err)
	}
	m.Model[string(key)] = refwmpt.Entry{Key: key, Value: value, Weight: w}
	if m.Past == nil {
		m.Past = map[string][][]byte{}
	}
	known := false
	for _, p := range m.Past[string(key)] {
		known = known || bytes.Equal(p, value)
	}
	if !known {
		m.Past[string(key)] = append(m.Past[string(key)], append([]byte(nil), value...))
	}
	m.Dirty = true
	m.CheckWeight()
}

// Revert updates a live key to a value it had earlier (other than its current one): the drawn key is the n-th live key
// that has such a value. Returns false when there is none.
func (m *Machine) Revert(rt *rapid.T, label string) bool {
	type cand struct {
		e refwmpt.Entry
		v []byte
	}
	var cs []cand
	for _, e := range Entries(m.Model) {
		for _, p := range m.Past[string(e.Key)] {
			if !bytes.Equal(p, e.Value) {
				cs = append(cs, cand{e, p})
			}
		}
	}
	if len(cs) == 0 {
		return false
	}
	c := gen.Pick(rt, cs, label)
	m.Logf("(back to an earlier value)")
	m.Update(c.e.Key, append([]byte(nil), c.v...))
	return true
}

// Delete removes key; absent keys must report ErrNotFound and change nothing.
func (m *Machine) Delete(key []byte) {
	e, present := m.Model[string(key)]
	// the three spellings of a removal take turns: Update with a nil value, Update with an empty non-nil value, Delete
	m.delSeq++
	var err error
	switch m.delSeq % 3 {
	case 0:
		m.Logf("del %s", short(key))
		err = m.T.Update(key, nil, 0)
	case 1:
		m.Logf("del %s (empty value)", short(key))
		err = m.T.Update(key, []byte{}, 0)
	default:
		m.Logf("del %s (Delete)", short(key))
		var w uint64
		w, err = m.T.Delete(key)
		if present && err == nil && w != e.Weight {
			m.Fail("Delete(%x) reports weight %d, the entry had weight %d", key, w, e.Weight)
		}
	}
	if present {
		if err != nil {
			m.Fail("delete of present %x: %v", key, err)
		}
		if m.Graveyard == nil {
			m.Graveyard = map[string]refwmpt.Entry{}
		}
		m.Graveyard[string(key)] = e
		delete(m.Model, string(key))
		m.Dirty = true
	} else if err == nil {
		m.Fail("delete of absent %x returned nil", key)
	}
	m.CheckWeight()
}

// CheckWeight: Weight() does not touch hashes, so it is checked after every step.
func (m *Machine) CheckWeight() {
	var want uint64
	for _, e := range m.Model {
		want += e.Weight
	}
	if got := m.T.Weight(); got != want {
		m.Fail("total weight %d, sum of live weights %d", got, want)
	}
}

// ObserveTrie checks root, weight, block ownership and proofs of trie t against model.
// blocks: "ends" checks first and last block of every key; extra adds drawn interior blocks.
func ObserveTrie(t *wmpt.WeightedMerkleTrie, model map[string]refwmpt.Entry, extra []uint64, fail func(string, ...any), what string) {
	es := Entries(model)
	wantRoot, wantW := refwmpt.Root(es)
	if got := t.Weight(); got != wantW {
		fail("%s: Weight() = %d, want %d", what, got, wantW)
	}
	root := t.Root()
	if !bytes.Equal(root, wantRoot) {
		fail("%s: Root() = %x, reference %x", what, root, wantRoot)
	}
	var blocks []uint64
	var cum uint64
	for _, e := range es {
		blocks = append(blocks, cum+1, cum+e.Weight)
		cum += e.Weight
	}
	for _, b := range extra {
		if wantW > 0 {
			blocks = append(blocks, 1+b%wantW)
		}
	}
	for _, b := range blocks {
		owner, _, _, ok := refwmpt.Owner(es, b)
		if !ok {
			fail("%s: HARNESS: no owner for block %d", what, b)
		}
		key, proof, err := t.GetBlockProof(b)
		if err != nil {
			fail("%s: GetBlockProof(%d): %v", what, b, err)
		}
		if !bytes.Equal(key, owner.Key) {
			fail("%s: block %d is owned by %x, trie says %x", what, b, owner.Key, key)
		}
		h, v, err := wmpt.New(nil, nil).VerifyBlockProof(b, proof)
		if err != nil {
			fail("%s: honest proof for block %d does not verify: %v", what, b, err)
		}
		if !bytes.Equal(h, wantRoot) || !bytes.Equal(v, owner.Value) {
			fail("%s: proof for block %d verifies to root %x value %x, want root %x value %x", what, b, h, v, wantRoot, owner.Value)
		}
	}
}

// Observe runs ObserveTrie on the machine's own trie.
func (m *Machine) Observe(extra []uint64) {
	m.Logf("observe")
	ObserveTrie(m.T, m.Model, extra, m.Fail, "live trie")
}

// CommitTrie commits at the collapse level and returns the batch (not yet written).
func (m *Machine) CommitTrie(level int) interface{ Commit(bool) error } {
	m.Logf("commit(%d)", level)
	b, err := m.T.Commit(level)
	if err != nil {
		m.Fail("Commit(%d): %v", level, err)
	}
	m.Dirty = false
	return b
}

// Commit commits and writes the batch.
func (m *Machine) Commit(level int) {
	b := m.CommitTrie(level)
	if err := b.Commit(true); err != nil {
		m.Fail("batch commit: %v", err)
	}
	m.Logf("batch written")
}

// GC runs one garbage-collection pass.
func (m *Machine) GC() {
	m.Logf("gc")
	if err := m.T.DeleteNodes(); err != nil {
		m.Fail("DeleteNodes: %v", err)
	}
}

// Reload continues on a new trie opened from (root, weight) on the same storage.
// Only valid when the trie is clean and its batch written.
func (m *Machine) Reload() {
	root, w := m.T.Root(), m.T.Weight()
	m.Logf("reload")
	if w == 0 {
		m.T = wmpt.New(nil, m.DB)
		return
	}
	m.T = wmpt.New(wmpt.NewHashNode(append([]byte(nil), root...), w), m.DB)
}

// Reopened returns a fresh trie at (root, weight) on db.
func Reopened(db *memkv.Store, root []byte, w uint64) *wmpt.WeightedMerkleTrie {
	if w == 0 {
		return wmpt.New(nil, db)
	}
	return wmpt.New(wmpt.NewHashNode(append([]byte(nil), root...), w), db)
}

// Churn takes a built trie through 0..2 further rounds of changes (new values for live keys, deletes,
// re-adds from pool) so that the state handed to a check was reached by a history and not only by inserts. Hashes are
// computed before every round (memory-only tries; reading hashes of a dirty stored trie is a listed C11 finding), and a
// stored trie is committed at a drawn collapse level after every round. At least one entry stays live. Returns the
// number of operations applied.
func (m *Machine) Churn(rt *rapid.T, pool [][]byte, counter *int, label string) int {
	n := 0
	for r := gen.Uniform(rt, 0, 2, label+"rounds"); r > 0; r-- {
		if m.DB == nil {
			_ = m.T.Root()
		}
		for i := gen.Uniform(rt, 1, 4, label+"ops"); i > 0; i-- {
			es := Entries(m.Model)
			switch k := gen.Pct(rt, label+"op"); {
			case k < 30 && len(es) > 1:
				m.Delete(gen.Pick(rt, es, label+"del").Key)
			case k < 55 && len(es) > 0:
				// a new value (and with it a new weight) for a live key
				e := gen.Pick(rt, es, label+"rw")
				m.Update(e.Key, GenValue(rt, 77, counter, true))
			default:
				ki := gen.Uniform(rt, 0, len(pool)-1, label+"ki")
				m.Update(pool[ki], GenValue(rt, ki, counter, true))
			}
			n++
		}
		if m.DB != nil {
			m.Commit(gen.Pick(rt, []int{0, 1, 2, 3, 64}, label+"lvl"))
		}
	}
	return n
}

var collideOnce sync.Once
var collideA, collideB []byte

// CollidingValues returns two different values of equal weight (by the rule WeightOf) whose value-record hashes agree
// in their first four bytes - found once per process by a birthday search over a few hundred thousand candidates (the
// kind of coincidence a real store meets once it holds billions of records). Nil, nil if the search finds none.
func CollidingValues() ([]byte, []byte) {
	collideOnce.Do(func() {
		seen := map[[4]byte][]byte{}
		for i := 0; i < 600000; i++ {
			v := []byte{3, 0xc0, 0x00, 0x55, byte(i), byte(i >> 8), byte(i >> 16)} // v[2] = 0: never a wide weight
			var k [4]byte
			copy(k[:], refwmpt.ValueHash(v, WeightOf(v)))
			if o, ok := seen[k]; ok {
				collideA, collideB = o, v
				return
			}
			seen[k] = v
		}
	})
	return collideA, collideB
}

// Resurrect re-adds a key that is not live with exactly the entry it had when it was removed (the trie goes back
// towards a state it was in before). Returns false when there is no such key.
func (m *Machine) Resurrect(rt *rapid.T, label string) bool {
	var cs []refwmpt.Entry
	for k, e := range m.Graveyard {
		if _, live := m.Model[k]; !live {
			cs = append(cs, e)
		}
	}
	if len(cs) == 0 {
		return false
	}
	sort.Slice(cs, func(i, j int) bool { return bytes.Compare(cs[i].Key, cs[j].Key) < 0 })
	e := gen.Pick(rt, cs, label)
	m.Logf("(re-add a removed entry unchanged)")
	m.Rewrite(e)
	return true
}

// Migrate moves a value from one live key to another inside one window: key a gets the fresh value, then key b gets the
// value a had. At every moment the values of different keys are distinct. The moved value is struck from what a (or any
// other key) could go back to later, so that two keys never hold it at the same time.
func (m *Machine) Migrate(rt *rapid.T, fresh []byte, label string) bool {
	es := Entries(m.Model)
	if len(es) < 2 {
		return false
	}
	ai := gen.Uniform(rt, 0, len(es)-1, label+"a")
	bi := (ai + 1 + gen.Uniform(rt, 0, len(es)-2, label+"b")) % len(es)
	a, b := es[ai], es[bi]
	moved := append([]byte(nil), a.Value...)
	m.Logf("(a value moves from one key to another)")
	m.Update(a.Key, fresh)
	m.Update(b.Key, moved)
	for k, ps := range m.Past {
		if k == string(b.Key) {
			continue
		}
		var keep [][]byte
		for _, p := range ps {
			if !bytes.Equal(p, moved) {
				keep = append(keep, p)
			}
		}
		m.Past[k] = keep
	}
	for k, e := range m.Graveyard {
		if bytes.Equal(e.Value, moved) {
			delete(m.Graveyard, k)
		}
	}
	return true
}
