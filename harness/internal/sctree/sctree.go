// Package sctree is the block-tree oracle and generator for the state cache
// checks (C06, C07, C08). A declared tree fixes, up front, every block's parent
// link and the writes of each of its transactions; the truth for a key in the
// context of a block is then a walk along declared parent links that needs no
// knowledge of the cache implementation.
package sctree

import (
	"fmt"
	"strings"

	"github.com/0chain/common/core/statecache"

	"pgregory.net/rapid"

	"verif/harness/internal/gen"
)

// Write is one set/remove of a transaction.
type Write struct {
	Key    string `json:"k"`
	Val    string `json:"v,omitempty"`
	Remove bool   `json:"rm,omitempty"`
}

// Txn is a declared transaction. Commit=false: abandoned.
type Txn struct {
	Writes []Write `json:"w"`
	Commit bool    `json:"commit"`
}

// Block is a declared block. Commit=false: executed but never committed
// (abandoned block); lookups that have to pass through it can never hit.
type Block struct {
	Hash  string `json:"h"`
	Prev  string `json:"prev"` // "" for none; may name a hash that is never declared (gap)
	Round int64  `json:"round"`
	Txns  []Txn  `json:"txns"`
	// Direct: values set on the block cache itself (BlockCache.Set) when the block starts, before any transaction
	Direct []Write `json:"direct,omitempty"`
	Commit bool    `json:"commit"`
	Twice  bool    `json:"twice,omitempty"`  // executed and committed a second time through another BlockCache object
	Rename bool    `json:"rename,omitempty"` // created under a temporary hash, SetBlockHash later (miner path)
}

// Tree is the declaration.
type Tree struct {
	Blocks []Block  `json:"blocks"`
	Keys   []string `json:"keys"`
	Quiet  bool     `json:"quiet,omitempty"`
	// WideTxns counts transactions of more than 30 writes
	WideTxns int `json:"wide_txns,omitempty"`
	HugeTxns int `json:"huge_txns,omitempty"`
	byHash   map[string]*Block
}

// Entry is a write as the cache should see it.
type Entry struct {
	Val     string
	Deleted bool
}

// Index prepares lookups by hash.
func (t *Tree) Index() {
	t.byHash = map[string]*Block{}
	for i := range t.Blocks {
		t.byHash[t.Blocks[i].Hash] = &t.Blocks[i]
	}
}

// Block by hash (nil for undeclared hashes).
func (t *Tree) Block(h string) *Block { return t.byHash[h] }

// Content is the final committed content of a block: its committing, non-late
// transactions applied in declaration order.
func (b *Block) Content() map[string]Entry {
	c := map[string]Entry{}
	for _, w := range b.Direct {
		c[w.Key] = Entry{Val: w.Val}
	}
	for _, tx := range b.Txns {
		if !tx.Commit {
			continue
		}
		for _, w := range tx.Writes {
			c[w.Key] = Entry{Val: w.Val, Deleted: w.Remove}
		}
	}
	return c
}

// Truth is the static truth for key in the context of block hash: the first
// write or tombstone met walking declared parent links, using every declared
// committing block's final content whether or not it has been committed yet.
// found=false: nothing along the chain (gap, never-committed block or end).
func (t *Tree) Truth(key, hash string) (e Entry, found bool, depth int) {
	for h := hash; h != ""; depth++ {
		b := t.byHash[h]
		if b == nil || !b.Commit {
			return Entry{}, false, depth
		}
		if e, ok := b.Content()[key]; ok {
			return e, true, depth
		}
		h = b.Prev
		if depth > 100000 {
			break
		}
	}
	return Entry{}, false, depth
}

// TruthNow is the time-aware truth: like Truth but only blocks in committed
// (committed to the state cache so far) are passable; reaching any other block
// means the cache cannot know the answer (must miss).
func (t *Tree) TruthNow(key, hash string, committed map[string]bool) (e Entry, found bool, depth int) {
	for h := hash; h != ""; depth++ {
		b := t.byHash[h]
		if b == nil || !committed[h] {
			return Entry{}, false, depth
		}
		if e, ok := b.Content()[key]; ok {
			return e, true, depth
		}
		h = b.Prev
	}
	return Entry{}, false, depth
}

// Params bound the generated tree.
type Params struct {
	MaxBlocks  int
	MaxKeys    int
	Forks      bool
	Gaps       bool
	Abandoned  bool // abandoned txns / blocks / late txns
	Twice      bool
	OnlyChains bool // every block commits and every parent is declared or "" (C07 positive expectations)
}

// Gen draws a declared tree.
func Gen(rt *rapid.T, p Params) *Tree {
	t := &Tree{}
	nk := gen.Uniform(rt, 1, p.MaxKeys, "nkeys")
	for i := 0; i < nk; i++ {
		t.Keys = append(t.Keys, fmt.Sprintf("k%d", i))
	}
	n := gen.Uniform(rt, 2, p.MaxBlocks, "nblocks")
	// names that run into each other: a key that is another key plus the first letter of the block hashes, and block
	// hashes that are another block's hash with that letter in front ("k0"+"BB3" reads like "k0B"+"B3")
	runTogether := nk >= 2 && gen.Chance(rt, 8, "runtogether")
	if runTogether {
		t.Keys[1] = t.Keys[0] + "B"
	}
	usedHash := map[string]bool{}
	valSeq := 0
	// a tenth of the trees name their blocks with hex-looking hashes and give fork siblings hashes that differ only in
	// letter case
	caseTwins := p.Forks && gen.Chance(rt, 10, "casetwins")
	twinned := map[string]bool{}
	// quiet long chains: most blocks write nothing, so a key's last write lies many links behind the tip
	quiet := gen.Chance(rt, 20, "quiet")
	if quiet {
		n = gen.Uniform(rt, 22, 60, "nblocksquiet") // far below the 2000 links a lookup is willing to walk
		if gen.Chance(rt, 50, "veryquiet") {
			n = gen.Uniform(rt, 105, 150, "nblocksveryquiet") // answers more than 100 links back
			if gen.Chance(rt, 25, "extremelyquiet") {
				n = gen.Uniform(rt, 262, 300, "nblocksextremelyquiet") // answers more than 256 links back
			}
		}
	}
	t.Quiet = quiet
	wideTree := !quiet && gen.Chance(rt, 10, "widetree")
	// values come back: a write often stores a value the key had before (possibly the one that is visible right now)
	past := map[string][]string{}
	newVal := func(key string) string {
		if h := past[key]; len(h) > 0 && gen.Chance(rt, 30, "oldval") {
			if gen.Chance(rt, 60, "lastval") {
				return h[len(h)-1]
			}
			return gen.Pick(rt, h, "anyold")
		}
		valSeq++
		v := fmt.Sprintf("v%d", valSeq)
		past[key] = append(past[key], v)
		return v
	}
	for i := 0; i < n; i++ {
		b := Block{Hash: fmt.Sprintf("B%d", i), Round: int64(i + 1), Commit: true}
		if caseTwins {
			b.Hash = fmt.Sprintf("b%dfa", i) // hex-looking, lower case; a fork sibling may get the upper-case twin
		}
		if runTogether && !caseTwins && i >= 1 && gen.Chance(rt, 35, "longhash") {
			if h := "B" + t.Blocks[gen.Uniform(rt, 0, i-1, "longhashof")].Hash; !usedHash[h] {
				b.Hash = h
			}
		}
		usedHash[b.Hash] = true
		switch {
		case i == 0:
			b.Prev = ""
			if p.Gaps && gen.Chance(rt, 30, "rootgap") {
				b.Prev = "gap-root"
			}
		case p.Gaps && !quiet && gen.Chance(rt, 7, "gap"):
			b.Prev = fmt.Sprintf("gap-%d", i)
		case p.Gaps && !quiet && gen.Chance(rt, 5, "root2"):
			b.Prev = ""
		case p.Forks && !quiet && gen.Chance(rt, 30, "fork"):
			b.Prev = t.Blocks[gen.Uniform(rt, 0, i-1, "parent")].Hash
			if caseTwins {
				// a sibling on the same parent whose hash has no twin yet: this block becomes its upper-case twin
				for j := range t.Blocks {
					if sib := t.Blocks[j]; sib.Prev == b.Prev && !twinned[sib.Hash] && sib.Hash == strings.ToLower(sib.Hash) {
						b.Hash = strings.ToUpper(sib.Hash)
						twinned[sib.Hash] = true
						break
					}
				}
			}
		case p.Forks && quiet && n <= 256 && gen.Chance(rt, 10, "quietfork"):
			// (chains of more than 256 blocks stay linear: every side branch would shorten the way from the tip to the root)
			// a short side branch near the tip or anywhere along the chain (the main chain stays long)
			b.Prev = t.Blocks[gen.Uniform(rt, max(0, i-1-gen.Uniform(rt, 0, 30, "forkback")), i-1, "quietparent")].Hash
		default:
			b.Prev = t.Blocks[i-1].Hash
		}
		if gen.Chance(rt, 15, "direct") {
			// the block writes a value itself, before its transactions run
			dk := gen.Pick(rt, t.Keys, "dk")
			b.Direct = append(b.Direct, Write{Key: dk, Val: newVal(dk)})
		}
		ntx := gen.Uniform(rt, 0, 3, "ntx")
		if quiet && i >= 3 && !(n <= 100 && gen.Chance(rt, 4, "quietwrites")) && !(n > 100 && i >= n-3 && gen.Chance(rt, 30, "tipwrites")) {
			ntx = 0
			b.Direct = nil
		}
		for j := 0; j < ntx; j++ {
			tx := Txn{Commit: true}
			nw := gen.Uniform(rt, 1, 3, "nw")
			for k := 0; k < nw; k++ {
				w := Write{Key: gen.Pick(rt, t.Keys, "wk")}
				if gen.Chance(rt, 22, "rm") {
					w.Remove = true
				} else {
					w.Val = newVal(w.Key)
				}
				tx.Writes = append(tx.Writes, w)
			}
			if wideTree && gen.Chance(rt, 40, "widetx") {
				// a big transaction: the few keys that are looked up plus 32..70 others, in one batch
				var fill []Write
				nf := gen.Uniform(rt, 30, 70, "nfill")
				if gen.Chance(rt, 12, "hugetx") {
					nf = gen.Uniform(rt, 1020, 1100, "nfillhuge")
					t.HugeTxns++
				}
				for f := 0; f < nf; f++ {
					fill = append(fill, Write{Key: fmt.Sprintf("w%d", f), Val: fmt.Sprintf("f%d", valSeq+f)})
				}
				if gen.Chance(rt, 50, "fillfirst") {
					tx.Writes = append(fill, tx.Writes...)
				} else {
					tx.Writes = append(tx.Writes, fill...)
				}
				t.WideTxns++
			}
			if p.Abandoned {
				if gen.Chance(rt, 15, "txabandon") {
					tx.Commit = false
				}
			}
			b.Txns = append(b.Txns, tx)
		}
		if p.Abandoned && !p.OnlyChains && !quiet && gen.Chance(rt, 8, "abandonblock") {
			b.Commit = false
		}
		if p.Twice && b.Commit && gen.Chance(rt, 12, "twice") {
			b.Twice = true
		}
		if b.Commit && gen.Chance(rt, 10, "rename") {
			b.Rename = true
		}
		t.Blocks = append(t.Blocks, b)
	}
	t.Index()
	return t
}

// HasFork reports whether two blocks share a parent.
func (t *Tree) HasFork() bool {
	seen := map[string]bool{}
	for _, b := range t.Blocks {
		if b.Prev != "" && seen[b.Prev] {
			return true
		}
		seen[b.Prev] = true
	}
	return false
}

// HasGap reports whether a parent link names an undeclared or never-committed block.
func (t *Tree) HasGap() bool {
	for _, b := range t.Blocks {
		if b.Prev == "" {
			continue
		}
		if p := t.byHash[b.Prev]; p == nil || !p.Commit {
			return true
		}
	}
	return false
}

// MultiDepthKey reports whether some key is written at >=2 depths of one chain of >=3 blocks.
func (t *Tree) MultiDepthKey() bool {
	for _, b := range t.Blocks {
		for _, k := range t.Keys {
			writes, depth := 0, 0
			for h := b.Hash; h != ""; depth++ {
				bb := t.byHash[h]
				if bb == nil {
					break
				}
				if _, ok := bb.Content()[k]; ok && bb.Commit {
					writes++
				}
				h = bb.Prev
			}
			if writes >= 2 && depth >= 3 {
				return true
			}
		}
	}
	return false
}

// MutVal is a mutable cache value with correct deep copies (harness value type).
type MutVal struct{ B []byte }

func (m *MutVal) Clone() statecache.Value { return &MutVal{B: append([]byte(nil), m.B...)} }
func (m *MutVal) CopyFrom(v interface{}) bool {
	o, ok := v.(*MutVal)
	if !ok {
		return false
	}
	m.B = append([]byte(nil), o.B...)
	return true
}

// MutValHooks: callers scribble on what they pass in and on what they get back.
func MutValHooks() Hooks {
	return Hooks{
		Make: func(v string) statecache.Value { return &MutVal{B: []byte(v)} },
		Read: func(v statecache.Value) string { return string(v.(*MutVal).B) },
		Mutate: func(v statecache.Value) {
			b := v.(*MutVal).B
			for i := range b {
				b[i] ^= 0x5a
			}
		},
	}
}
