package sctree

import (
	"fmt"
	"sort"
	"strings"

	"github.com/0chain/common/core/statecache"
	"pgregory.net/rapid"

	"verif/harness/internal/gen"
)

// Hooks adapt the runner to a value type and to the strength of the oracle.
type Hooks struct {
	Make func(val string) statecache.Value // fresh value object for a declared value
	Read func(v statecache.Value) string   // its content
	// Mutate, if set, is applied to every object after it was handed to the cache
	// and to every object the cache handed out (after its content was read).
	Mutate func(v statecache.Value)
	// TimeAware: judge state-level lookups against blocks committed so far and
	// require hits where the whole chain down to the write is committed (C07).
	TimeAware bool
	// AllowRemoveKey lets the schedule call StateCache.Remove (only sound when hits alone are judged).
	AllowRemoveKey bool
	// MaxLookupBlocks, if > 0, bounds the number of different blocks at which lookups happen in trees that have more
	// blocks than that (the cache keeps at most 200 entries per key, remembered answers included).
	MaxLookupBlocks int
}

type liveTxn struct {
	decl    *Txn
	tc      *statecache.TransactionCache
	next    int // next write to apply
	done    bool
	model   map[string]Entry
	touched bool
}

type liveBlock struct {
	decl      *Block
	bc        *statecache.BlockCache
	txns      []*liveTxn
	model     map[string]Entry // pre-commit content of bc
	committed bool
	renamed   bool
	twiceDone bool
}

// Runner executes a drawn schedule over a declared tree against the real caches.
type Runner struct {
	RT        *rapid.T
	Tree      *Tree
	H         Hooks
	SC        *statecache.StateCache
	live      map[string]*liveBlock
	order     []string
	committed map[string]bool
	Log       []string
	handedOut []handed
	// traits
	OutOfOrderCommit, TombstoneHit, AncestorThenDescendant, DoubleCommit, AbandonedTxnSeen, AbandonedBlockSeen bool
	MutatedAfterSet, MutatedAfterGet                                                                           int
	Lookups, Hits, MustHits                                                                                    int
	DirectBlockWrites                                                                                          int
	DeepWalks                                                                                                  int // lookups whose answer lies 20 or more links behind the queried block
	CappedLookups                                                                                              int
	QueryTxns                                                                                                  int
	lset                                                                                                       map[int]bool
	VeryDeepWalks                                                                                              int             // ... 100 or more links
	lookedAt                                                                                                   map[string]bool // key@block looked up at state level
	removedKeys                                                                                                map[string]bool
}

type handed struct {
	obj  statecache.Value
	want string
	desc string
}

func NewRunner(rt *rapid.T, t *Tree, h Hooks) *Runner {
	return &Runner{RT: rt, Tree: t, H: h, SC: statecache.NewStateCache(), live: map[string]*liveBlock{}, committed: map[string]bool{}, lookedAt: map[string]bool{}, removedKeys: map[string]bool{}}
}

func (r *Runner) logf(f string, a ...any) { r.Log = append(r.Log, fmt.Sprintf(f, a...)) }

func (r *Runner) Failf(f string, a ...any) {
	r.RT.Fatalf("%s\nschedule:\n  %s\ntree: %+v", fmt.Sprintf(f, a...), strings.Join(r.Log, "\n  "), r.Tree.Blocks)
}

func (r *Runner) start(b *Block) *liveBlock {
	h := b.Hash
	if b.Rename {
		h = "tmp-" + b.Hash
	}
	lb := &liveBlock{decl: b, model: map[string]Entry{}}
	lb.bc = statecache.NewBlockCache(r.SC, statecache.Block{Round: b.Round, Hash: h, PrevHash: b.Prev})
	for i := range b.Txns {
		lb.txns = append(lb.txns, &liveTxn{decl: &b.Txns[i], model: map[string]Entry{}})
	}
	r.live[b.Hash] = lb
	r.order = append(r.order, b.Hash)
	r.logf("start %s (prev %q)", b.Hash, b.Prev)
	r.direct(lb.bc, b, lb.model)
	return lb
}

// direct applies the block's own writes (BlockCache.Set, outside any transaction).
func (r *Runner) direct(bc *statecache.BlockCache, b *Block, model map[string]Entry) {
	for _, w := range b.Direct {
		v := r.H.Make(w.Val)
		bc.Set(w.Key, v)
		r.logf("block %s set %s=%s directly", b.Hash, w.Key, w.Val)
		if model != nil {
			model[w.Key] = Entry{Val: w.Val}
		}
		if r.H.Mutate != nil {
			r.H.Mutate(v)
			r.MutatedAfterSet++
		}
		r.DirectBlockWrites++
	}
}

func (r *Runner) set(tc *statecache.TransactionCache, w Write, who string) {
	if w.Remove {
		tc.Remove(w.Key)
		r.logf("%s remove %s", who, w.Key)
		return
	}
	v := r.H.Make(w.Val)
	tc.Set(w.Key, v)
	r.logf("%s set %s=%s", who, w.Key, w.Val)
	if r.H.Mutate != nil {
		r.H.Mutate(v)
		r.MutatedAfterSet++
	}
}

// judge compares a lookup result with the expectation.
// want/found: the truth; mustHit: a miss is a violation as well.
func (r *Runner) judge(what string, got statecache.Value, ok bool, want Entry, found, mustHit bool) {
	r.Lookups++
	if ok {
		r.Hits++
		s := r.H.Read(got)
		if !found || want.Deleted {
			r.Failf("%s hit %q, but the truth is %s", what, s, map[bool]string{true: "a removed key", false: "no write on the chain"}[found])
		}
		if s != want.Val {
			r.Failf("%s hit %q, truth is %q", what, s, want.Val)
		}
		if r.H.Mutate != nil && gen.Chance(r.RT, 50, "scribble") {
			// a private copy was promised: scribbling on it must not matter
			r.H.Mutate(got)
			r.MutatedAfterGet++
			r.logf("  (mutated the returned object)")
		} else {
			// keep it: it must still read the same at the end, whatever is written to the cache meanwhile
			r.handedOut = append(r.handedOut, handed{got, s, what})
			if len(r.handedOut) > 64 {
				r.handedOut = r.handedOut[1:]
			}
		}
		return
	}
	if mustHit && found && !want.Deleted {
		r.Failf("%s missed, but %q is committed along a fully committed chain", what, want.Val)
	}
}

// stateTruth gives the expectation for a state-level lookup at hash.
func (r *Runner) stateTruth(key, hash string) (Entry, bool, bool) {
	if r.H.TimeAware {
		e, found, depth := r.Tree.TruthNow(key, hash, r.committed)
		if found && depth >= 20 {
			r.DeepWalks++
		}
		if found && depth >= 100 {
			r.VeryDeepWalks++
		}
		return e, found, found && !r.removedKeys[key]
	}
	e, found, depth := r.Tree.Truth(key, hash)
	if found && depth >= 20 && r.committed[hash] {
		r.DeepWalks++
	}
	if found && depth >= 100 && r.committed[hash] {
		r.VeryDeepWalks++
	}
	return e, found, false
}

func (r *Runner) lookupState(key, hash string, viaQuery bool) {
	want, found, must := r.stateTruth(key, hash)
	var got statecache.Value
	var ok bool
	if viaQuery && gen.Chance(r.RT, 35, "querytxn") {
		// a read-only caller that runs a transaction on top of the query view: the lookup goes through it, then it writes
		// and removes the key speculatively (own uncommitted writes come first) and is thrown away
		tc := statecache.NewTransactionCache(statecache.NewQueryBlockCache(r.SC, hash))
		got, ok = tc.Get(key)
		tc.Set(key, r.H.Make("speculative"))
		if g2, ok2 := tc.Get(key); !ok2 || r.H.Read(g2) != "speculative" {
			r.Failf("transaction over the query view of %s: after its own Set(%s) the lookup returns %v (found %v)", hash, key, g2, ok2)
		}
		tc.Remove(key)
		if g3, ok3 := tc.Get(key); ok3 {
			r.Failf("transaction over the query view of %s: after its own Remove(%s) the lookup still hits %q", hash, key, r.H.Read(g3))
		}
		r.QueryTxns++
	} else if viaQuery {
		got, ok = statecache.NewQueryBlockCache(r.SC, hash).Get(key)
	} else {
		got, ok = r.SC.Get(key, hash)
	}
	r.logf("lookup state %s@%s -> %v", key, hash, ok)
	// ancestor looked at earlier, now a descendant
	if b := r.Tree.Block(hash); b != nil {
		for h := b.Prev; h != ""; {
			if r.lookedAt[key+"@"+h] {
				r.AncestorThenDescendant = true
				break
			}
			p := r.Tree.Block(h)
			if p == nil {
				break
			}
			h = p.Prev
		}
	}
	r.lookedAt[key+"@"+hash] = true
	if found && want.Deleted {
		r.TombstoneHit = true
	}
	r.judge(fmt.Sprintf("state lookup %s@%s", key, hash), got, ok, want, found, must)
	if must {
		r.MustHits++
	}
}

func (r *Runner) lookupBlock(lb *liveBlock, key string) {
	got, ok := lb.bc.Get(key)
	r.logf("lookup block %s key %s -> %v", lb.decl.Hash, key, ok)
	if e, has := lb.model[key]; has {
		r.judge(fmt.Sprintf("block-cache lookup %s in %s (own pending write)", key, lb.decl.Hash), got, ok, e, true, r.H.TimeAware)
		return
	}
	want, found, must := r.stateTruth(key, lb.decl.Prev)
	r.judge(fmt.Sprintf("block-cache lookup %s in %s", key, lb.decl.Hash), got, ok, want, found, must)
}

func (r *Runner) lookupTxn(lb *liveBlock, tx *liveTxn, idx int, key string) {
	got, ok := tx.tc.Get(key)
	r.logf("lookup txn %s/%d key %s -> %v", lb.decl.Hash, idx, key, ok)
	if e, has := tx.model[key]; has {
		r.judge(fmt.Sprintf("txn-cache lookup %s in %s/%d (own write)", key, lb.decl.Hash, idx), got, ok, e, true, r.H.TimeAware)
		return
	}
	if e, has := lb.model[key]; has {
		r.judge(fmt.Sprintf("txn-cache lookup %s in %s/%d (block's pending write)", key, lb.decl.Hash, idx), got, ok, e, true, r.H.TimeAware)
		return
	}
	want, found, must := r.stateTruth(key, lb.decl.Prev)
	r.judge(fmt.Sprintf("txn-cache lookup %s in %s/%d", key, lb.decl.Hash, idx), got, ok, want, found, must)
}

// Run draws and executes a schedule of about nsteps actions, then drains.
func (r *Runner) Run(nsteps int) {
	t := r.Tree
	notStarted := func() []*Block {
		var out []*Block
		for i := range t.Blocks {
			if r.live[t.Blocks[i].Hash] == nil {
				out = append(out, &t.Blocks[i])
			}
		}
		return out
	}
	for step := 0; step < nsteps; step++ {
		k := gen.Pct(r.RT, "act")
		ns := notStarted()
		var running []*liveBlock
		for _, h := range r.order {
			if lb := r.live[h]; !lb.committed {
				running = append(running, lb)
			}
		}
		switch {
		case (k < 15 || len(running) == 0) && len(ns) > 0:
			// mostly in declaration order, sometimes a later block first (child before parent)
			b := ns[0]
			if gen.Chance(r.RT, 25, "outoforder") {
				b = gen.Pick(r.RT, ns, "startwhich")
			}
			r.start(b)
		case k < 50 && len(running) > 0:
			r.txnStep(gen.Pick(r.RT, running, "txblock"))
		case k < 62 && len(running) > 0:
			r.tryCommit(gen.Pick(r.RT, running, "cblock"))
		case k < 66 && len(r.order) > 0:
			// the same block executed and committed again through another BlockCache object
			lb := r.live[gen.Pick(r.RT, r.order, "twice")]
			if lb.decl.Twice && !lb.twiceDone && lb.decl.Commit {
				r.twice(lb)
			}
		case k < 68 && r.H.AllowRemoveKey:
			key := gen.Pick(r.RT, t.Keys, "rmkey")
			r.SC.Remove(key)
			r.removedKeys[key] = true
			r.logf("StateCache.Remove(%s)", key)
		default:
			if len(t.Blocks) > 256 || len(t.Blocks) > 100 && gen.Chance(r.RT, 90, "holdlookups") {
				continue // very long quiet chains: hardly any lookup before everything is committed, so no remembered answers shorten the walks
			}
			r.lookup(running)
		}
	}
	// drain: finish everything that is declared to commit, with lookups in between
	for _, b := range notStarted() {
		r.start(b)
	}
	for progress := true; progress; {
		progress = false
		for _, h := range r.order {
			lb := r.live[h]
			if lb.committed || !lb.decl.Commit {
				continue
			}
			for !r.tryCommit(lb) {
				r.txnStep(lb)
			}
			progress = true
			if len(t.Blocks) <= 100 {
				r.lookup(nil)
			}
		}
	}
	if len(t.Blocks) > 256 {
		// very long chains: at each of the last blocks every key is asked in turn, forwards and backwards (what one key's
		// long walk leaves behind must not change another key's answer)
		for bi := len(t.Blocks) - 1; bi >= len(t.Blocks)-4 && bi >= 0; bi-- {
			for i := range t.Keys {
				r.lookupState(t.Keys[i], t.Blocks[bi].Hash, false)
			}
			for i := len(t.Keys) - 1; i >= 0; i-- {
				r.lookupState(t.Keys[i], t.Blocks[bi].Hash, i%2 == 0)
			}
		}
	}
	for i := 0; i < 2*len(t.Blocks); i++ {
		r.lookup(nil)
	}
	r.CheckHandedOut()
}

// lookupSet: the blocks at which lookups happen when the number of lookup blocks is bounded: the first ten, the last
// ones and some evenly spaced ones in between.
func (r *Runner) lookupSet() map[int]bool {
	if r.lset != nil {
		return r.lset
	}
	n, m := len(r.Tree.Blocks), r.H.MaxLookupBlocks
	r.lset = map[int]bool{}
	for i := 0; i < 10 && i < n; i++ {
		r.lset[i] = true
	}
	for i := 0; i < m/4; i++ {
		r.lset[10+i*(n-20)/(m/4)] = true
	}
	for i := n - 1; i >= 0 && len(r.lset) < m; i-- {
		r.lset[i] = true
	}
	return r.lset
}

func (r *Runner) lookup(running []*liveBlock) {
	t := r.Tree
	key := gen.Pick(r.RT, t.Keys, "lk")
	kind := gen.Pct(r.RT, "lkind")
	capped := r.H.MaxLookupBlocks > 0 && len(t.Blocks) > r.H.MaxLookupBlocks
	if capped {
		// a lookup inside a running block asks the state at its parent
		idx := map[string]int{}
		for i := range t.Blocks {
			idx[t.Blocks[i].Hash] = i
		}
		var keep []*liveBlock
		for _, lb := range running {
			if i, ok := idx[lb.decl.Prev]; ok && r.lookupSet()[i] {
				keep = append(keep, lb)
			}
		}
		running = keep
		r.CappedLookups++
	}
	switch {
	case kind < 25 && len(running) > 0:
		lb := gen.Pick(r.RT, running, "lb")
		var cands []int
		for i, tx := range lb.txns {
			if tx.tc != nil && !tx.done {
				cands = append(cands, i)
			}
		}
		if len(cands) > 0 {
			i := gen.Pick(r.RT, cands, "ltx")
			r.lookupTxn(lb, lb.txns[i], i, key)
			return
		}
		r.lookupBlock(lb, key)
	case kind < 40 && len(running) > 0:
		r.lookupBlock(gen.Pick(r.RT, running, "lb2"), key)
	default:
		b := gen.Pick(r.RT, t.Blocks, "lblock")
		if capped {
			var is []int
			for i := range r.lookupSet() {
				is = append(is, i)
			}
			sort.Ints(is)
			b = t.Blocks[gen.Pick(r.RT, is, "lblockcapped")]
		}
		hash := b.Hash
		if gen.Chance(r.RT, 4, "lgap") && b.Prev != "" && !capped {
			hash = b.Prev
		}
		r.lookupState(key, hash, gen.Chance(r.RT, 30, "viaquery"))
	}
}

// txnStep advances one transaction of lb: next write, or commit when complete.
func (r *Runner) txnStep(lb *liveBlock) {
	var cands []int
	for i, tx := range lb.txns {
		if !tx.done {
			cands = append(cands, i)
		}
	}
	if len(cands) == 0 {
		return
	}
	i := gen.Pick(r.RT, cands, "whichtx")
	tx := lb.txns[i]
	if tx.tc == nil {
		tx.tc = statecache.NewTransactionCache(lb.bc)
	}
	who := fmt.Sprintf("%s/%d", lb.decl.Hash, i)
	if tx.next < len(tx.decl.Writes) {
		w := tx.decl.Writes[tx.next]
		tx.next++
		r.set(tx.tc, w, who)
		tx.model[w.Key] = Entry{Val: w.Val, Deleted: w.Remove}
		return
	}
	if !tx.decl.Commit {
		tx.done = true // abandoned: never committed
		r.AbandonedTxnSeen = true
		r.logf("%s abandoned", who)
		return
	}
	// committing transactions commit in declaration order (the order defines the block's content)
	for j := 0; j < i; j++ {
		if o := lb.txns[j]; o.decl.Commit && !o.done {
			return
		}
	}
	tx.tc.Commit()
	tx.done = true
	for k, e := range tx.model {
		lb.model[k] = e
	}
	r.logf("%s commit", who)
}

// tryCommit commits the block if all its committing transactions are done.
func (r *Runner) tryCommit(lb *liveBlock) bool {
	if lb.committed {
		return true
	}
	for _, tx := range lb.txns {
		if tx.decl.Commit && !tx.done {
			return false
		}
	}
	if !lb.decl.Commit {
		r.AbandonedBlockSeen = true
		return true
	}
	if lb.decl.Rename && !lb.renamed {
		lb.bc.SetBlockHash(lb.decl.Hash)
		lb.renamed = true
		r.logf("%s SetBlockHash", lb.decl.Hash)
		// what the block cache answers must not depend on the name it carries: ask right away
		for _, key := range r.Tree.Keys {
			if len(r.Tree.Blocks) > 256 {
				break // very long chains: no lookup before everything is committed (remembered answers would shorten the walks)
			}
			r.lookupBlock(lb, key)
		}
		if gen.Chance(r.RT, 50, "hashthenlater") {
			// the block has its final hash now and is committed at a later step; lookups through it go on meanwhile
			return false
		}
	}
	if p := r.Tree.Block(lb.decl.Prev); p != nil && p.Commit && !r.committed[p.Hash] {
		r.OutOfOrderCommit = true
	}
	lb.bc.Commit()
	lb.committed = true
	r.committed[lb.decl.Hash] = true
	for _, tx := range lb.txns {
		tx.done = true
	}
	lb.model = map[string]Entry{}
	r.logf("commit block %s", lb.decl.Hash)
	return true
}

func (r *Runner) twice(lb *liveBlock) {
	b := lb.decl
	bc2 := statecache.NewBlockCache(r.SC, statecache.Block{Round: b.Round, Hash: b.Hash, PrevHash: b.Prev})
	r.direct(bc2, b, nil)
	for i := range b.Txns {
		tx := &b.Txns[i]
		tc := statecache.NewTransactionCache(bc2)
		for _, w := range tx.Writes {
			r.set(tc, w, fmt.Sprintf("%s'/%d", b.Hash, i))
		}
		if tx.Commit {
			tc.Commit()
		}
	}
	bc2.Commit()
	lb.twiceDone = true
	r.DoubleCommit = true
	r.committed[b.Hash] = true
	if !lb.committed {
		// the second execution got there first; the first object's commit will be ignored
		r.logf("second execution of %s committed first", b.Hash)
	} else {
		r.logf("second execution of %s committed (ignored)", b.Hash)
	}
}

// CheckHandedOut: objects the cache handed out earlier still read what they read then.
func (r *Runner) CheckHandedOut() {
	for _, h := range r.handedOut {
		if got := r.H.Read(h.obj); got != h.want {
			r.Failf("object handed out by %s read %q then, reads %q now", h.desc, h.want, got)
		}
	}
}
