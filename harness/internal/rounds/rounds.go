// Package rounds generates and executes multi-round block histories the way
// the chain drives the state trie: per round a block trie over
// LevelNodeDB(memory, persistent store), transaction tries merged or
// discarded, SaveChanges without deletes, RecordDeadNodes, optional prune.
// It is shared by C04 (completeness, crash during save) and C05 (dead nodes,
// prune, crash during prune).
package rounds

import (
	"context"
	"fmt"
	"sort"
	"sync"
	"sync/atomic"
	"time"

	"github.com/0chain/common/core/statecache"
	"github.com/0chain/common/core/util"
	"github.com/linxGnu/grocksdb"
	"pgregory.net/rapid"

	"verif/harness/internal/gen"
	"verif/harness/internal/mptkit"
	"verif/harness/internal/refmpt"
)

// Txn is one transaction of a round.
type Txn struct {
	Ops   []mptkit.Op `json:"ops"`
	Merge bool        `json:"merge"`
}

// Round is one block.
type Round struct {
	Version int64 `json:"version"`
	Txns    []Txn `json:"txns"`
	// PruneBelow > 0: after this round's save, prune below that version.
	PruneBelow int64 `json:"prune_below,omitempty"`
}

// Script is a whole history; Models[i] is the expected content after round i.
type Script struct {
	Rounds []Round             `json:"rounds"`
	Models []map[string][]byte `json:"-"`
	// traits for classification
	Recreate           bool `json:"-"` // some round deletes a key and inserts identical content again
	RecreateAcross     bool `json:"-"`
	MergedAndDiscarded bool `json:"-"`
	Wide               bool `json:"-"` // round numbers continue beyond 2^31
}

// Gen draws a script of 1..maxRounds rounds. withPrune adds prune steps.
func Gen(rt *rapid.T, maxRounds int, withPrune bool) *Script {
	s := &Script{}
	model := map[string][]byte{}
	var used []string
	n := gen.Uniform(rt, 1, maxRounds, "nrounds")
	version := int64(gen.Uniform(rt, 1, 3, "v1"))
	graveyard := map[string][]byte{} // deleted pairs, candidates for identical re-creation
	wide := n >= 3 && gen.Chance(rt, 12, "wide")
	jumpAt := -1
	if wide {
		jumpAt = gen.Uniform(rt, 1, n-2, "jumpat")
	}
	for r := 0; r < n; r++ {
		rd := Round{Version: version}
		ntx := gen.Uniform(rt, 1, 4, "ntx")
		merged, disc := false, false
		for t := 0; t < ntx; t++ {
			tm := mptkit.CopyContent(model)
			var ops []mptkit.Op
			nops := gen.Uniform(rt, 1, 6, "nops")
			for i := 0; i < nops; i++ {
				// identical re-creation of something deleted earlier (this round or an earlier one)
				if len(graveyard) > 0 && gen.Chance(rt, 25, "recreate") {
					k := gen.Pick(rt, mptkit.SortedKeys(graveyard), "rk")
					if _, live := tm[k]; !live {
						ops = append(ops, mptkit.Op{Kind: "ins", Path: k, Val: fmt.Sprintf("%x", graveyard[k])})
						tm[k] = graveyard[k]
						s.Recreate = true
						continue
					}
				}
				before := mptkit.CopyContent(tm)
				one := mptkit.GenOpsP(rt, tm, &used, 1, 3, 40, fmt.Sprintf("r%dt%d", r, t))
				ops = append(ops, one...)
				if one[0].Kind == "del" {
					graveyard[one[0].Path] = before[one[0].Path]
				}
			}
			merge := gen.Chance(rt, 75, "merge")
			rd.Txns = append(rd.Txns, Txn{Ops: ops, Merge: merge})
			if merge {
				model = tm
				merged = true
			} else {
				disc = true
			}
		}
		if merged && disc {
			s.MergedAndDiscarded = true
		}
		if withPrune && gen.Chance(rt, 45, "prune") {
			// any version from 1 to one past the newest; two thirds of the prunes aim at the version of a round saved so
			// far other than the oldest (a uniform draw mostly lands at or below the oldest round and removes nothing)
			if len(s.Rounds) > 0 && gen.Chance(rt, 66, "pvround") {
				vs := []int64{version}
				for _, prev := range s.Rounds[1:] {
					vs = append(vs, prev.Version)
				}
				rd.PruneBelow = gen.Pick(rt, vs, "pvr")
			} else if gen.Chance(rt, 25, "pvbeyond") {
				// a prune version well beyond the newest round (everything so far may go; rounds saved later lie below it)
				rd.PruneBelow = version + int64(gen.Uniform(rt, 2, 8, "pvb"))
			} else {
				rd.PruneBelow = int64(gen.Uniform(rt, 1, int(version)+1, "pv"))
			}
		}
		s.Rounds = append(s.Rounds, rd)
		s.Models = append(s.Models, mptkit.CopyContent(model))
		version += int64(gen.Uniform(rt, 1, 2, "dv"))
		if wide && r == jumpAt {
			// round numbers are 64-bit: the history continues 2^32 (or 2^31, 2^40) rounds later, at a number whose low
			// half repeats the number of a round that is already there, or next to it
			earlier := gen.Pick(rt, s.Rounds, "jumponto").Version
			version = int64(gen.Pick(rt, []int{1 << 32, 1 << 32, 1 << 32, 1 << 31, 1 << 40}, "jumpby")) + earlier + int64(gen.Pick(rt, []int{0, 0, 0, 1, -1}, "jumpoff"))
			s.Wide = true
		}
	}
	return s
}

// SaveCtx supplies the context of every SaveChanges call. A check may install a context whose Done() pauses: the
// caller's select evaluates ctx.Done() first, so this stands for a caller that is descheduled just before it waits
// for the saving goroutine.
var SaveCtx = context.Background

// SlowCtx is a context whose Done() returns after a short pause.
type SlowCtx struct {
	context.Context
	Pause time.Duration
}

func (c SlowCtx) Done() <-chan struct{} {
	time.Sleep(c.Pause)
	return c.Context.Done()
}

// OnBeforeSave, when set, is told how many changed nodes a round's block trie is about to save.
var OnBeforeSave func(changes int)

var dirSeq atomic.Int64

// NewDir returns a fresh persistent directory name.
func NewDir() string { return fmt.Sprintf("verif-rounds-%d", dirSeq.Add(1)) }

// Saved is what the harness remembers about a saved round.
type Saved struct {
	Version int64
	Root    []byte
	Model   map[string][]byte
	Dead    []string // raw hashes passed to RecordDeadNodes
	Pruned  bool     // a prune at a version above this round's has run
}

// ExecRound executes round rd on top of prevRoot using only the persistent store in dir,
// saves it and records its dead nodes. It returns the resulting root, the dead set it
// passed on, and the first error of the save stream.
func ExecRound(dir string, prevRoot []byte, rd Round) (root []byte, dead []string, err error) {
	pndb := mptkit.Reopen(dir)
	sc := statecache.NewStateCache()
	bc := statecache.NewBlockCache(sc, statecache.Block{Round: rd.Version, Hash: fmt.Sprintf("b%d", rd.Version), PrevHash: "p"})
	block := util.NewMerklePatriciaTrie(util.NewLevelNodeDB(util.NewMemoryNodeDB(), pndb, false), util.Sequence(rd.Version), prevRoot, statecache.NewTransactionCache(bc))
	for ti, tx := range rd.Txns {
		tdb := util.NewLevelNodeDB(util.NewMemoryNodeDB(), block.GetNodeDB(), false)
		tm := util.NewMerklePatriciaTrie(tdb, block.GetVersion(), block.GetRoot(), statecache.NewTransactionCache(bc))
		if e := mptkit.Apply(tm, tx.Ops); e != nil {
			return nil, nil, fmt.Errorf("HARNESS: round %d txn %d: %w", rd.Version, ti, e)
		}
		if tx.Merge {
			if e := block.MergeMPTChanges(tm); e != nil {
				return nil, nil, fmt.Errorf("HARNESS: round %d txn %d merge: %w", rd.Version, ti, e)
			}
			tm.Cache().Commit()
			if (rd.Version+int64(ti))%3 == 1 {
				// the pending dead set is looked at between transactions as well (a monitoring read); only the one taken
				// after the last transaction is recorded
				_ = block.GetDeletes()
				_, _, _, _ = block.GetChanges()
			}
		}
	}
	root = append([]byte(nil), block.GetRoot()...)
	deadNodes := block.GetDeletes()
	for _, d := range deadNodes {
		dead = append(dead, string(d.GetHashBytes()))
	}
	sort.Strings(dead)
	if rd.Version%2 == 0 {
		// a reader with its own, cold node cache walks the block state before it is saved (a query on the pending block);
		// reading must not disturb what is about to be saved
		reader := util.CloneMPT(block)
		if ierr := reader.Iterate(context.Background(), func(context.Context, util.Path, util.Key, util.Node) error { return nil }, util.NodeTypesAll); ierr != nil {
			return root, dead, fmt.Errorf("HARNESS: a cold reader cannot iterate the block state before the save: %v", ierr)
		}
	}
	if OnBeforeSave != nil {
		OnBeforeSave(block.GetChangeCount())
	}
	if rd.Version%3 == 1 {
		// the block state is moved onto the persistent store first and saved there afterwards (nothing reads it in between)
		block.SetNodeDB(pndb)
	}
	if err = block.SaveChanges(SaveCtx(), pndb, false); err != nil {
		return root, dead, err
	}
	if err = pndb.RecordDeadNodes(deadNodes, rd.Version); err != nil {
		return root, dead, err
	}
	bc.Commit()
	if rd.Version%3 != 0 {
		// the round is final: the block state is moved onto the persistent store (what the chain does with a finalized
		// block's state); it still reads the same
		block.SetNodeDB(pndb)
		if ierr := util.CloneMPT(block).Iterate(context.Background(), func(context.Context, util.Path, util.Key, util.Node) error { return nil }, util.NodeTypeValueNode); ierr != nil {
			return root, dead, fmt.Errorf("the block state cannot be iterated after it was moved onto the persistent store: %v", ierr)
		}
	}
	return root, dead, nil
}

// Prune runs PruneBelowVersion on a freshly opened store. A prune below an even version is called the way the chain's pruning
// worker calls it: with a statistics object in the context whose stage the caller has set to "deleting".
func Prune(dir string, v int64) error {
	ctx := context.Background()
	if v%2 == 0 {
		// one statistics context per store, used for every such prune of it (the worker keeps its context)
		c, _ := pruneCtx.LoadOrStore(dir, util.WithPruneStats(ctx))
		ctx = c.(context.Context)
		util.GetPruneStats(ctx).Stage = util.PruneStateDelete
	}
	return mptkit.Reopen(dir).PruneBelowVersion(ctx, v)
}

var pruneCtx sync.Map

// CheckReadable opens the store alone (fresh PNodeDB object, fresh trie and cache) at a
// saved root and requires exactly the model content, by the trie's own Iterate and
// lookups and by the harness walker over the raw bytes.
func CheckReadable(dir string, sv Saved) error {
	// the raw walk goes first: it stops at absurd depths, whereas the trie's own Iterate recurses without bound on a store
	// whose records sit under foreign keys (a cycle ends the process with a stack overflow, which decides nothing)
	w := refmpt.WalkFrom(sv.Root, mptkit.GetterOfRaw(dir), false)
	if len(w.Missing) > 0 || len(w.Problems) > 0 {
		return fmt.Errorf("round %d root %x: raw walk: %d missing, problems %v", sv.Version, sv.Root, len(w.Missing), w.Problems)
	}
	if !mptkit.EqualContent(w.Content, sv.Model) {
		return fmt.Errorf("round %d: raw walk content %s, want %s", sv.Version, mptkit.Show(w.Content), mptkit.Show(sv.Model))
	}
	pndb := mptkit.Reopen(dir)
	mpt := mptkit.NewTrie(pndb, sv.Version, sv.Root)
	got, err := mptkit.Content(mpt)
	if err != nil {
		return fmt.Errorf("round %d root %x: Iterate: %v", sv.Version, sv.Root, err)
	}
	if !mptkit.EqualContent(got, sv.Model) {
		return fmt.Errorf("round %d: store reads %s, saved content was %s", sv.Version, mptkit.Show(got), mptkit.Show(sv.Model))
	}
	for p, want := range sv.Model {
		v, err := mpt.GetNodeValueRaw(util.Path(p))
		if err != nil || string(v) != string(want) {
			return fmt.Errorf("round %d: lookup %q = %x, %v", sv.Version, p, v, err)
		}
	}
	return nil
}

// Reachable returns the raw keys reachable from root in the persistent store.
func Reachable(dir string, root []byte) map[string]bool {
	w := refmpt.WalkFrom(root, mptkit.GetterOfRaw(dir), false)
	out := map[string]bool{}
	for k := range w.Reachable {
		out[k] = true
	}
	return out
}

// Keys of the default column family.
func Keys(dir string) map[string]bool {
	out := map[string]bool{}
	for k := range grocksdb.StoreFor(dir).Snapshot("default") {
		out[k] = true
	}
	return out
}

// Block is a live block state in the in-memory chain mode.
type Block struct {
	Trie *util.MerklePatriciaTrie
	BC   *statecache.BlockCache
	Rd   Round
}

// ExecOnTop executes a round on top of a previous live block (its LevelNodeDB
// becomes the new block's previous store, as the chain does before the
// previous block is finalised). prev == nil starts from the persistent store.
func ExecOnTop(sc *statecache.StateCache, pndb *util.PNodeDB, prev *Block, rd Round) (*Block, error) {
	var prevDB util.NodeDB = pndb
	var prevRoot util.Key
	prevHash := "genesis"
	if prev != nil {
		prevDB = prev.Trie.GetNodeDB()
		prevRoot = prev.Trie.GetRoot()
		prevHash = fmt.Sprintf("b%d", prev.Rd.Version)
	}
	bc := statecache.NewBlockCache(sc, statecache.Block{Round: rd.Version, Hash: fmt.Sprintf("b%d", rd.Version), PrevHash: prevHash})
	block := util.NewMerklePatriciaTrie(util.NewLevelNodeDB(util.NewMemoryNodeDB(), prevDB, false), util.Sequence(rd.Version), prevRoot, statecache.NewTransactionCache(bc))
	for ti, tx := range rd.Txns {
		tdb := util.NewLevelNodeDB(util.NewMemoryNodeDB(), block.GetNodeDB(), false)
		tm := util.NewMerklePatriciaTrie(tdb, block.GetVersion(), block.GetRoot(), statecache.NewTransactionCache(bc))
		if e := mptkit.Apply(tm, tx.Ops); e != nil {
			return nil, fmt.Errorf("round %d txn %d: %w", rd.Version, ti, e)
		}
		if tx.Merge {
			if e := block.MergeMPTChanges(tm); e != nil {
				return nil, fmt.Errorf("round %d txn %d merge: %w", rd.Version, ti, e)
			}
			tm.Cache().Commit()
		}
	}
	bc.Commit()
	return &Block{Trie: block, BC: bc, Rd: rd}, nil
}

// Save persists a live block (SaveChanges without deletes + dead-node record) into pndb without touching the block.
func Save(pndb *util.PNodeDB, b *Block) (dead []string, err error) {
	deadNodes := b.Trie.GetDeletes()
	for _, d := range deadNodes {
		dead = append(dead, string(d.GetHashBytes()))
	}
	sort.Strings(dead)
	if err = b.Trie.SaveChanges(SaveCtx(), pndb, false); err != nil {
		return
	}
	err = pndb.RecordDeadNodes(deadNodes, b.Rd.Version)
	return
}

// Finalize saves a live block, records its dead nodes and rebases it onto the persistent store.
func Finalize(pndb *util.PNodeDB, b *Block) (dead []string, err error) {
	if dead, err = Save(pndb, b); err != nil {
		return
	}
	b.Trie.SetNodeDB(pndb)
	return
}
