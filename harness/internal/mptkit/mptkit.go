// Package mptkit holds what the state-trie checks (C01-C05, C14, C16, C17) share:
// generators for paths and values, store constructors, fresh-cache trie
// construction, and adaptors from node stores to refmpt getters.
package mptkit

import (
	"context"
	"fmt"
	"hash/crc32"
	"sort"
	"strings"
	"sync/atomic"

	"github.com/0chain/common/core/statecache"
	"github.com/0chain/common/core/util"
	"github.com/linxGnu/grocksdb"
	"pgregory.net/rapid"

	"verif/harness/internal/gen"
	"verif/harness/internal/refmpt"
)

// Val is the value type the harness inserts (raw bytes, as the chain's SecureSerializableValue).
func Val(b []byte) util.MPTSerializable {
	return &util.SecureSerializableValue{Buffer: append([]byte(nil), b...)}
}

// InsertReused inserts v through a value object that the caller goes on using: the object's buffer is overwritten
// right after the call returns (a caller that fills one value object in a loop).
func InsertReused(mpt *util.MerklePatriciaTrie, path string, v []byte) (util.Key, error) {
	obj := &util.SecureSerializableValue{Buffer: append([]byte(nil), v...)}
	root, err := mpt.Insert(util.Path(path), obj)
	for i := range obj.Buffer {
		obj.Buffer[i] ^= 0xa5
	}
	return root, err
}

// FreshCache returns a transaction cache on a brand-new state cache stack.
func FreshCache() *statecache.TransactionCache {
	sc := statecache.NewStateCache()
	_, tc := statecache.NewBlockTxnCaches(sc, statecache.Block{})
	return tc
}

// NewTrie opens a trie with its own fresh cache.
func NewTrie(db util.NodeDB, version int64, root util.Key) *util.MerklePatriciaTrie {
	return util.NewMerklePatriciaTrie(db, util.Sequence(version), root, FreshCache())
}

var dirSeq atomic.Int64

// NewPNodeDB opens a persistent store on the grocksdb stand-in under a unique directory name.
func NewPNodeDB() (*util.PNodeDB, string) {
	dir := fmt.Sprintf("verif-pndb-%d", dirSeq.Add(1))
	db, err := util.NewPNodeDB(dir, dir+"-log")
	if err != nil {
		panic(err)
	}
	return db, dir
}

// Reopen is a "restart": a new PNodeDB object on the same durable content.
func Reopen(dir string) *util.PNodeDB {
	db, err := util.NewPNodeDB(dir, dir+"-log")
	if err != nil {
		panic(err)
	}
	return db
}

// DropDir forgets the durable content of dir.
func DropDir(dir string) { grocksdb.Drop(dir) }

// StoreKinds enumerates the node-store stacks the checks run on.
var StoreKinds = []string{"memory", "level-mem", "level-pndb", "pndb", "level-pndb-over-mem", "level-pndb-over-pndb"}

// Store is a node store stack plus what is needed to clean it up.
type Store struct {
	Kind string
	DB   util.NodeDB
	Dir  string // persistent directory, if any
	Dir2 string
	P    *util.PNodeDB
}

func (s *Store) Close() {
	if s.Dir != "" {
		DropDir(s.Dir)
	}
	if s.Dir2 != "" {
		DropDir(s.Dir2)
	}
}

// NewStore builds a store stack of the given kind.
func NewStore(kind string) *Store {
	switch kind {
	case "memory":
		return &Store{Kind: kind, DB: util.NewMemoryNodeDB()}
	case "level-mem":
		return &Store{Kind: kind, DB: util.NewLevelNodeDB(util.NewMemoryNodeDB(), util.NewMemoryNodeDB(), false)}
	case "level-pndb":
		p, dir := NewPNodeDB()
		return &Store{Kind: kind, DB: util.NewLevelNodeDB(util.NewMemoryNodeDB(), p, false), Dir: dir, P: p}
	case "pndb":
		p, dir := NewPNodeDB()
		return &Store{Kind: kind, DB: p, Dir: dir, P: p}
	case "level-pndb-over-mem":
		// a persistent store as the upper level of another store
		p, dir := NewPNodeDB()
		return &Store{Kind: kind, DB: util.NewLevelNodeDB(p, util.NewMemoryNodeDB(), false), Dir: dir, P: p}
	case "level-pndb-over-pndb":
		p, dir := NewPNodeDB()
		p2, dir2 := NewPNodeDB()
		return &Store{Kind: kind, DB: util.NewLevelNodeDB(p, p2, false), Dir: dir, Dir2: dir2, P: p}
	}
	panic("unknown store kind " + kind)
}

// ---- generators ----

// Alphabet of path nibbles: small on purpose, so generated paths share prefixes.
var pathBytes = []string{"00", "01", "0a", "10", "11", "1f", "a0", "a1", "af", "ff", "f0"}

// GenPath draws an even-length lower-case hex path of at most maxBytes bytes.
// About 40% of the draws truncate or extend (by whole bytes) a path already in
// used, about 8% are the empty path.
func GenPath(rt *rapid.T, used []string, maxBytes int, label string) string {
	k := gen.Pct(rt, label+"_k")
	switch {
	case k < 8:
		return ""
	case k < 48 && len(used) > 0:
		base := gen.Pick(rt, used, label+"_base")
		switch gen.Uniform(rt, 0, 3, label+"_m") {
		case 0: // the same path again
			return base
		case 1: // truncate
			if len(base) >= 2 {
				n := gen.Uniform(rt, 0, len(base)/2-1, label+"_t")
				return base[:2*n]
			}
			return base
		case 2: // extend
			if len(base)/2 < maxBytes {
				return base + gen.Pick(rt, pathBytes, label+"_e")
			}
			return base
		default: // sibling: change the last byte
			if len(base) >= 2 {
				return base[:len(base)-2] + gen.Pick(rt, pathBytes, label+"_s")
			}
			return base
		}
	}
	n := gen.Uniform(rt, 1, maxBytes, label+"_n")
	p := ""
	for i := 0; i < n; i++ {
		p += gen.Pick(rt, pathBytes, label+"_b")
	}
	return p
}

// TwinPath returns base with exactly one nibble changed (base must not be empty): the two paths share the nibbles
// before the drawn position and all nibbles after it.
func TwinPath(rt *rapid.T, base, label string) string {
	j := gen.Uniform(rt, 0, len(base)-1, label+"j")
	nib := "0123456789abcdef"[gen.Uniform(rt, 0, 15, label+"n")]
	if nib == base[j] {
		nib = "123456789abcdef0"[strings.IndexByte("0123456789abcdef", nib)]
	}
	return base[:j] + string(nib) + base[j+1:]
}

// GenLongPath draws a path of 8..20 bytes (16..40 hex characters) made mostly of repeated "00" bytes, so that whole
// 8-character stretches repeat inside a path and between paths; more than half of the draws derive the path from a
// long path already used (one byte changed, truncated, extended, or a new tail from some position on).
func GenLongPath(rt *rapid.T, used []string, label string) string {
	b := func(l string) string {
		if gen.Chance(rt, 60, l+"z") {
			return "00"
		}
		return gen.Pick(rt, []string{"01", "0a", "10", "ff", "a0", "00"}, l)
	}
	var long []string
	for _, u := range used {
		if len(u) >= 16 {
			long = append(long, u)
		}
	}
	if len(long) > 0 && gen.Chance(rt, 55, label+"_d") {
		base := gen.Pick(rt, long, label+"_base")
		nb := len(base) / 2
		switch gen.Uniform(rt, 0, 3, label+"_m") {
		case 0:
			i := gen.Uniform(rt, 0, nb-1, label+"_i")
			return base[:2*i] + gen.Pick(rt, []string{"01", "0a", "10", "ff", "00"}, label+"_c") + base[2*i+2:]
		case 1:
			return base[:2*gen.Uniform(rt, 4, nb, label+"_t")]
		case 2:
			p := base
			for i := gen.Uniform(rt, 1, 8, label+"_x"); i > 0 && len(p) < 96; i-- {
				p += b(label + "_e")
			}
			return p
		default:
			p := base[:2*gen.Uniform(rt, 0, nb-1, label+"_k")]
			for len(p) < len(base) {
				p += b(label + "_n")
			}
			return p
		}
	}
	p := ""
	nlen := gen.Uniform(rt, 8, 20, label+"_len")
	if gen.Chance(rt, 20, label+"_vlong") {
		nlen = gen.Uniform(rt, 33, 44, label+"_vlen") // longer than a 32-byte hash key: merged paths exceed 64 elements
	}
	for i := nlen; i > 0; i-- {
		p += b(label + "_b")
	}
	return p
}

// GenFixedPath draws a path of exactly nBytes bytes (production shape: no path is a prefix of another).
func GenFixedPath(rt *rapid.T, nBytes int, label string) string {
	p := ""
	for i := 0; i < nBytes; i++ {
		p += gen.Pick(rt, pathBytes, label+"_b")
	}
	return p
}

var valueBytes = []byte{':', 0x00, 'a', '0', 'f', 0x91, 0xc4, 0xc0, 0xff, 0x01, 0x02, 0x04, 0x08}

// GenValue draws 1..12 bytes (one value in eight: 13..48 bytes) biased towards separators, zero bytes, hex digits,
// msgpack heads (0x91, 0xc4, 0xc0 = nil) and the node type codes 1, 2, 4, 8.
func GenValue(rt *rapid.T, label string) []byte {
	n := rapid.IntRange(1, 12).Draw(rt, label+"_n")
	if gen.Chance(rt, 12, label+"_long") {
		n = gen.Uniform(rt, 13, 48, label+"_nl")
	}
	v := make([]byte, n)
	for i := range v {
		if gen.Chance(rt, 33, label+"_s") {
			v[i] = rapid.Byte().Draw(rt, label+"_r")
		} else {
			v[i] = gen.Pick(rt, valueBytes, label+"_p")
		}
	}
	return v
}

// ---- adaptors ----

// GetterOf reads nodes through the NodeDB interface and re-encodes them.
func GetterOf(db util.NodeDB) refmpt.Getter {
	return func(key []byte) ([]byte, bool) {
		n, err := db.GetNode(key)
		if err != nil || n == nil {
			return nil, false
		}
		return n.Encode(), true
	}
}

// GetterOfRaw reads the raw bytes of the persistent store's default column family.
func GetterOfRaw(dir string) refmpt.Getter {
	snap := grocksdb.StoreFor(dir).Snapshot("default")
	return func(key []byte) ([]byte, bool) {
		v, ok := snap[string(key)]
		return v, ok && len(v) > 0
	}
}

// GetterOfMap reads from a raw key -> encoding map.
func GetterOfMap(m map[string][]byte) refmpt.Getter {
	return func(key []byte) ([]byte, bool) { v, ok := m[string(key)]; return v, ok }
}

// Content reads a trie's live pairs through Iterate (value nodes only), copying
// the path inside the handler as every caller must.
func Content(mpt util.MerklePatriciaTrieI) (map[string][]byte, error) {
	out := map[string][]byte{}
	var dup string
	err := mpt.Iterate(context.Background(), func(ctx context.Context, path util.Path, key util.Key, node util.Node) error {
		vn, ok := node.(*util.ValueNode)
		if !ok {
			return fmt.Errorf("iterate(value nodes) yielded %T", node)
		}
		p := string(append([]byte(nil), path...))
		if _, seen := out[p]; seen {
			dup = p
		}
		out[p] = vn.GetValueBytes()
		return nil
	}, util.NodeTypeValueNode)
	if err == nil && dup != "" {
		err = fmt.Errorf("iterate yielded path %q twice", dup)
	}
	return out, err
}

// SortedKeys of a content map.
func SortedKeys(m map[string][]byte) []string {
	ks := make([]string, 0, len(m))
	for k := range m {
		ks = append(ks, k)
	}
	sort.Strings(ks)
	return ks
}

// EqualContent compares two content maps.
func EqualContent(a, b map[string][]byte) bool {
	if len(a) != len(b) {
		return false
	}
	for k, v := range a {
		w, ok := b[k]
		if !ok || string(v) != string(w) {
			return false
		}
	}
	return true
}

// Show renders content compactly.
func Show(m map[string][]byte) string {
	s := "{"
	for i, k := range SortedKeys(m) {
		if i > 0 {
			s += " "
		}
		s += fmt.Sprintf("%q:%x", k, m[k])
	}
	return s + "}"
}

// Op is one generated trie operation.
type Op struct {
	Kind string `json:"k"` // ins | del
	Path string `json:"p"`
	Val  string `json:"v,omitempty"` // hex
}

func (o Op) String() string {
	if o.Kind == "ins" {
		return fmt.Sprintf("ins(%q,%s)", o.Path, o.Val)
	}
	return fmt.Sprintf("%s(%q)", o.Kind, o.Path)
}

// Lookalike returns a value of the same length as old that differs from it: ASCII letters in the other case, one end
// byte changed, or bytes changed so that the CRC-32 stays the same (the generator polynomial XOR-ed in).
func Lookalike(rt *rapid.T, old []byte, label string) []byte {
	v := append([]byte(nil), old...)
	switch gen.Uniform(rt, 0, 3, label) {
	case 0:
		changed := false
		for i, c := range v {
			if c >= 'a' && c <= 'z' || c >= 'A' && c <= 'Z' {
				v[i] = c ^ 0x20
				changed = true
			}
		}
		if changed {
			return v
		}
		v[len(v)-1]++
	case 1:
		if len(v) >= 5 {
			at := gen.Uniform(rt, 0, len(v)-5, label+"_at")
			for i, d := range []byte{0x41, 0x06, 0x71, 0xdb, 0x01} {
				v[at+i] ^= d
			}
			if crc32.ChecksumIEEE(v) == crc32.ChecksumIEEE(old) {
				return v
			}
			copy(v, old)
		}
		v[0]++
	case 2:
		v[len(v)-1]++
	default:
		v[0]++
	}
	return v
}

// GenOps draws n operations that are valid against model (deletes only of live
// keys, ~35% deletes when keys exist, with a bias to re-insert deleted keys)
// and applies them to model. used collects every path drawn.
func GenOps(rt *rapid.T, model map[string][]byte, used *[]string, n, maxBytes int, label string) []Op {
	return GenOpsP(rt, model, used, n, maxBytes, 35, label)
}

// GenOpsP is GenOps with the delete percentage given.
func GenOpsP(rt *rapid.T, model map[string][]byte, used *[]string, n, maxBytes, delPct int, label string) []Op {
	var ops []Op
	for i := 0; i < n; i++ {
		live := SortedKeys(model)
		if len(live) > 0 && gen.Chance(rt, delPct, label+"_d") {
			p := gen.Pick(rt, live, label+"_dk")
			ops = append(ops, Op{Kind: "del", Path: p})
			delete(model, p)
			continue
		}
		if gen.Chance(rt, 5, label+"_nest") {
			// a nested-prefix triple: A, then B leaving A early (inside what becomes an extension), then C leaving A late
			a := GenFixedPath(rt, gen.Uniform(rt, 3, 5, label+"_nl"), label+"_na")
			flip := func(q string, j, d int) string {
				const hexd = "0123456789abcdef"
				return q[:j] + string(hexd[(strings.IndexByte(hexd, q[j])+d)%16]) + q[j+1:]
			}
			b := flip(a, gen.Uniform(rt, 1, len(a)/2, label+"_ne"), 1+gen.Uniform(rt, 0, 13, label+"_nd"))
			c := flip(a, gen.Uniform(rt, len(a)/2+1, len(a)-1, label+"_nt"), 1+gen.Uniform(rt, 0, 13, label+"_nc"))
			for _, q := range []string{a, b, c} {
				v := GenValue(rt, label+"_nv")
				ops = append(ops, Op{Kind: "ins", Path: q, Val: fmt.Sprintf("%x", v)})
				model[q] = v
				*used = append(*used, q)
			}
			continue
		}
		if len(live) > 0 && gen.Chance(rt, 6, label+"_rere") {
			// a live key goes and comes straight back with the value it had
			p := gen.Pick(rt, live, label+"_rk")
			ops = append(ops, Op{Kind: "del", Path: p}, Op{Kind: "ins", Path: p, Val: fmt.Sprintf("%x", model[p])})
			continue
		}
		if gen.Chance(rt, 3, label+"_full") {
			// a complete branch that also holds a value: a key and sixteen longer keys, one under every slot; the
			// prefix key itself comes last or first, and later operations find all of them among the used paths
			base := GenFixedPath(rt, gen.Uniform(rt, 1, 2, label+"_fl"), label+"_fb")
			const hexd = "0123456789abcdef"
			qs := []string{base}
			for n := 0; n < 16; n++ {
				qs = append(qs, base+string(hexd[n])+string(hexd[gen.Uniform(rt, 0, 15, label+"_fr")]))
			}
			if gen.Chance(rt, 50, label+"_flast") {
				qs = append(qs[1:], base)
			}
			for _, q := range qs {
				v := GenValue(rt, label+"_fv")
				ops = append(ops, Op{Kind: "ins", Path: q, Val: fmt.Sprintf("%x", v)})
				model[q] = v
			}
			// the prefix key twice, so that following updates and removals pick it often
			*used = append(*used, base, base, qs[3])
			continue
		}
		p := GenPath(rt, *used, maxBytes, label+"_p")
		v := GenValue(rt, label+"_v")
		if len(live) > 0 && gen.Chance(rt, 12, label+"_twin") {
			// a twin of a live key: one nibble differs, the rest of the path and the value are the same (two leaves
			// whose remaining path and value coincide and that differ only by their position)
			if base := gen.Pick(rt, live, label+"_tb"); len(base) > 0 {
				p = TwinPath(rt, base, label+"_t")
				v = append([]byte(nil), model[base]...)
			}
		}
		if old, live := model[p]; live && len(old) > 0 && gen.Chance(rt, 15, label+"_like") {
			// an overwrite by a value that is easy to mistake for the old one
			v = Lookalike(rt, old, label+"_lk")
		}
		ops = append(ops, Op{Kind: "ins", Path: p, Val: fmt.Sprintf("%x", v)})
		model[p] = v
		*used = append(*used, p)
	}
	return ops
}

// Apply runs ops on a trie; any error is returned with the failing op.
func Apply(mpt util.MerklePatriciaTrieI, ops []Op) error {
	for i, o := range ops {
		var err error
		if o.Kind == "ins" {
			var v []byte
			fmt.Sscanf(o.Val, "%x", &v)
			// through a value object that the caller goes on using (overwritten right after the call)
			obj := &util.SecureSerializableValue{Buffer: v}
			_, err = mpt.Insert(util.Path(o.Path), obj)
			for j := range obj.Buffer {
				obj.Buffer[j] ^= 0xa5
			}
		} else {
			_, err = mpt.Delete(util.Path(o.Path))
		}
		if err != nil {
			return fmt.Errorf("op %d %v: %w", i, o, err)
		}
	}
	return nil
}

// CopyContent clones a content map.
func CopyContent(m map[string][]byte) map[string][]byte {
	out := make(map[string][]byte, len(m))
	for k, v := range m {
		out[k] = v
	}
	return out
}
