// Package gen has uniform draws built from rapid's fair Bool generator.
// rapid's integer generators and SampledFrom are deliberately biased towards
// small values / early indices (a geometric bit-length is drawn first), which
// distorts "do X with probability p" choices; these helpers keep every random
// choice inside rapid (so shrinking and replay work) but are uniform.
package gen

import (
	"math/bits"

	"pgregory.net/rapid"
)

var bits10 = rapid.SliceOfN(rapid.Bool(), 10, 10)
var bits20 = rapid.SliceOfN(rapid.Bool(), 20, 20)

func word(bs []bool) int {
	v := 0
	for i, b := range bs {
		if b {
			v |= 1 << (len(bs) - 1 - i)
		}
	}
	return v
}

// Pct is uniform in [0,100).
func Pct(t *rapid.T, label string) int { return word(bits10.Draw(t, label)) * 100 / 1024 }

// Uniform is uniform in [lo,hi] (range up to ~10^5 with negligible skew).
func Uniform(t *rapid.T, lo, hi int, label string) int {
	if hi <= lo {
		return lo
	}
	n := hi - lo + 1
	if n <= 64 {
		return lo + word(bits10.Draw(t, label))*n/1024
	}
	if n > 1<<40 {
		// 128-bit product: ranges as wide as a total weight built from wide weights
		h, l := bits.Mul64(uint64(word(bits20.Draw(t, label))), uint64(n))
		return lo + int(h<<44|l>>20)
	}
	return lo + word(bits20.Draw(t, label))*n/(1<<20)
}

// Pick chooses uniformly from a non-empty slice.
func Pick[T any](t *rapid.T, xs []T, label string) T {
	return xs[Uniform(t, 0, len(xs)-1, label)]
}

// Chance is true with probability pct/100.
func Chance(t *rapid.T, pct int, label string) bool { return Pct(t, label) < pct }
