// Package refwmpt is an independent reference for the weighted Merkle trie:
// root hash and total weight from the live (key, value, weight) set, owner of a
// weighted block, and a reachability walker over raw storage that decodes the
// persisted CBOR records with the exported Persist* record types.
//
// Hash format (sha3-256):
//
//	value node  H( BE64(weight) || value )
//	short node  H( key nibbles (one byte per nibble) || child hash )
//	branch node H( BE64(sum of child weights) || 16 child hashes, absent child = H("") )
//
// Canonical shape for a set of entries below a nibble prefix:
//
//	one entry, no nibbles left  -> the value node itself
//	one entry                   -> short(remaining nibbles) -> value
//	several, common prefix != 0 -> short(common prefix) -> branch
//	several, no common prefix   -> branch
package refwmpt

import (
	"bytes"
	"encoding/binary"
	"fmt"
	"sort"

	"github.com/0chain/common/core/util/wmpt"
	"github.com/fxamacker/cbor/v2"
	"golang.org/x/crypto/sha3"
)

// Entry is one live key.
type Entry struct {
	Key    []byte // 32 bytes
	Value  []byte
	Weight uint64
}

func H(b []byte) []byte { d := sha3.Sum256(b); return d[:] }

var Empty = H(nil)

func nibbles(k []byte) []byte {
	out := make([]byte, 2*len(k))
	for i, b := range k {
		out[2*i], out[2*i+1] = b>>4, b&15
	}
	return out
}

type ent struct {
	rest   []byte
	value  []byte
	weight uint64
}

// ValueHash is the hash of a value record (weight || value).
func ValueHash(v []byte, w uint64) []byte { return valueHash(v, w) }

func valueHash(v []byte, w uint64) []byte {
	m := binary.BigEndian.AppendUint64(nil, w)
	return H(append(m, v...))
}

// build returns (hash, weight, kind) of the canonical sub-trie.
func build(es []ent) ([]byte, uint64) {
	if len(es) == 1 {
		vh := valueHash(es[0].value, es[0].weight)
		if len(es[0].rest) == 0 {
			return vh, es[0].weight
		}
		return H(append(append([]byte{}, es[0].rest...), vh...)), es[0].weight
	}
	cp := es[0].rest
	for _, e := range es[1:] {
		i := 0
		for i < len(cp) && i < len(e.rest) && cp[i] == e.rest[i] {
			i++
		}
		cp = cp[:i]
	}
	if len(cp) > 0 {
		sub := make([]ent, len(es))
		for i, e := range es {
			sub[i] = ent{e.rest[len(cp):], e.value, e.weight}
		}
		bh, w := build(sub)
		return H(append(append([]byte{}, cp...), bh...)), w
	}
	var groups [16][]ent
	for _, e := range es {
		groups[e.rest[0]] = append(groups[e.rest[0]], ent{e.rest[1:], e.value, e.weight})
	}
	var total uint64
	var hs [16][]byte
	for i := range groups {
		if len(groups[i]) == 0 {
			hs[i] = Empty
			continue
		}
		var w uint64
		hs[i], w = build(groups[i])
		total += w
	}
	m := binary.BigEndian.AppendUint64(nil, total)
	for _, h := range hs {
		m = append(m, h...)
	}
	return H(m), total
}

// Root returns the canonical root hash and total weight of the entry set.
func Root(entries []Entry) ([]byte, uint64) {
	if len(entries) == 0 {
		return Empty, 0
	}
	es := make([]ent, len(entries))
	for i, e := range entries {
		es[i] = ent{nibbles(e.Key), e.Value, e.Weight}
	}
	return build(es)
}

// Sorted returns the entries in key order.
func Sorted(entries []Entry) []Entry {
	out := append([]Entry(nil), entries...)
	sort.Slice(out, func(i, j int) bool { return bytes.Compare(out[i].Key, out[j].Key) < 0 })
	return out
}

// Owner returns the entry whose cumulative-weight interval in key order contains block (1-based), and that interval.
func Owner(entries []Entry, block uint64) (e Entry, lo, hi uint64, ok bool) {
	var cum uint64
	for _, x := range Sorted(entries) {
		if block > cum && block <= cum+x.Weight {
			return x, cum + 1, cum + x.Weight, true
		}
		cum += x.Weight
	}
	return Entry{}, 0, 0, false
}

// Getter reads a raw storage record.
type Getter func(key []byte) ([]byte, bool)

// Walk is the result of resolving a root over raw storage.
type Walk struct {
	Reachable map[string]bool
	Missing   []string
	Problems  []string
	Entries   []Entry // values reached, with the key re-assembled from the path
}

// WalkFrom resolves every reference below root (hash, weight) in raw storage.
func WalkFrom(root []byte, get Getter) *Walk {
	w := &Walk{Reachable: map[string]bool{}}
	if bytes.Equal(root, Empty) || len(root) == 0 {
		return w
	}
	w.walk(root, nil, get)
	return w
}

func (w *Walk) walk(hash []byte, path []byte, get Getter) (weight uint64) {
	// records under foreign keys can form cycles: a path is at most 64 nibbles long
	if len(path) > 200 {
		if len(w.Problems) < 50 {
			w.Problems = append(w.Problems, fmt.Sprintf("the walk reached a path of %d nibbles below %x: the stored records form a cycle", len(path), hash))
		}
		return 0
	}
	raw, ok := get(hash)
	if !ok {
		w.Missing = append(w.Missing, fmt.Sprintf("%x at path %x", hash, path))
		return 0
	}
	w.Reachable[string(hash)] = true
	var p wmpt.PersistNodeBase
	if err := cbor.Unmarshal(raw, &p); err != nil {
		w.Problems = append(w.Problems, fmt.Sprintf("record %x does not decode: %v", hash, err))
		return 0
	}
	switch {
	case p.Value != nil:
		if !bytes.Equal(valueHash(p.Value.Value, p.Value.Weight), hash) {
			w.Problems = append(w.Problems, fmt.Sprintf("value record under %x hashes to %x", hash, valueHash(p.Value.Value, p.Value.Weight)))
		}
		if len(path) == 64 {
			k := make([]byte, 32)
			for i := range k {
				k[i] = path[2*i]<<4 | path[2*i+1]
			}
			w.Entries = append(w.Entries, Entry{Key: k, Value: p.Value.Value, Weight: p.Value.Weight})
		} else {
			w.Problems = append(w.Problems, fmt.Sprintf("value at path of %d nibbles", len(path)))
		}
		return p.Value.Weight
	case p.Short != nil:
		if len(p.Short.Value) != 40 {
			w.Problems = append(w.Problems, fmt.Sprintf("short record %x: child reference of %d bytes", hash, len(p.Short.Value)))
			return 0
		}
		child := p.Short.Value[:32]
		if !bytes.Equal(H(append(append([]byte{}, p.Short.Key...), child...)), hash) {
			w.Problems = append(w.Problems, fmt.Sprintf("short record under %x does not hash to it", hash))
		}
		cw := w.walk(child, append(append([]byte{}, path...), p.Short.Key...), get)
		if claimed := binary.BigEndian.Uint64(p.Short.Value[32:]); claimed != cw && cw != 0 {
			w.Problems = append(w.Problems, fmt.Sprintf("short record %x claims child weight %d, child has %d", hash, claimed, cw))
		}
		return cw
	case p.Branch != nil:
		var total uint64
		m := make([]byte, 8, 8+16*32)
		for i := 0; i < 16; i++ {
			if i >= len(p.Branch.Children) || len(p.Branch.Children[i]) < 40 {
				m = append(m, Empty...)
				continue
			}
			c := p.Branch.Children[i]
			m = append(m, c[:32]...)
			claimed := binary.BigEndian.Uint64(c[32:40])
			total += claimed
			cw := w.walk(c[:32], append(append([]byte{}, path...), byte(i)), get)
			if cw != claimed && cw != 0 {
				w.Problems = append(w.Problems, fmt.Sprintf("branch %x claims weight %d for child %d, child has %d", hash, claimed, i, cw))
			}
		}
		binary.BigEndian.PutUint64(m[:8], total)
		if !bytes.Equal(H(m), hash) {
			w.Problems = append(w.Problems, fmt.Sprintf("branch record under %x does not hash to it", hash))
		}
		return total
	default:
		w.Problems = append(w.Problems, fmt.Sprintf("record %x is neither value, short nor branch", hash))
		return 0
	}
}
