// Package memkv is an in-memory storage.StorageAdapter for the weighted trie
// checks: every storage operation (single put/delete, or a whole batch as one
// atomic operation) is appended to a log so that crash prefixes can be
// replayed; the batcher locks in Put/Delete like the Pebble wrapper does
// (wmpt.Commit saves from several goroutines).
package memkv

import (
	"errors"
	"sort"
	"sync"

	"github.com/0chain/common/core/util/storage"
)

// ErrNotFound mirrors the text of pebble.ErrNotFound.
var ErrNotFound = errors.New("pebble: not found")

// Rec is one record-level change.
type Rec struct {
	Key string
	Val []byte
	Del bool
}

// Op is one atomic storage operation.
type Op struct {
	Batch bool
	Recs  []Rec
}

type Store struct {
	mu   sync.Mutex
	data map[string][]byte
	Log  []Op
}

func New() *Store { return &Store{data: map[string][]byte{}} }

// FromLog rebuilds a store from a prefix of a log.
func FromLog(log []Op) *Store {
	s := New()
	for _, op := range log {
		s.apply(op, false)
	}
	return s
}

func (s *Store) apply(op Op, record bool) {
	for _, r := range op.Recs {
		if r.Del {
			delete(s.data, r.Key)
		} else {
			s.data[r.Key] = append([]byte(nil), r.Val...)
		}
	}
	if record {
		s.Log = append(s.Log, op)
	}
}

func (s *Store) Get(k []byte) ([]byte, error) {
	s.mu.Lock()
	defer s.mu.Unlock()
	v, ok := s.data[string(k)]
	if !ok {
		return nil, ErrNotFound
	}
	return append([]byte(nil), v...), nil
}

func (s *Store) Put(k, v []byte) error {
	s.mu.Lock()
	defer s.mu.Unlock()
	s.apply(Op{Recs: []Rec{{Key: string(k), Val: append([]byte(nil), v...)}}}, true)
	return nil
}

func (s *Store) Delete(k []byte) error {
	s.mu.Lock()
	defer s.mu.Unlock()
	s.apply(Op{Recs: []Rec{{Key: string(k), Del: true}}}, true)
	return nil
}

func (s *Store) Close() {}

// Has reports presence without copying.
func (s *Store) Has(k []byte) bool {
	s.mu.Lock()
	defer s.mu.Unlock()
	_, ok := s.data[string(k)]
	return ok
}

// Keys returns the sorted key set.
func (s *Store) Keys() []string {
	s.mu.Lock()
	defer s.mu.Unlock()
	ks := make([]string, 0, len(s.data))
	for k := range s.data {
		ks = append(ks, k)
	}
	sort.Strings(ks)
	return ks
}

// Snapshot copies the content.
func (s *Store) Snapshot() map[string][]byte {
	s.mu.Lock()
	defer s.mu.Unlock()
	out := make(map[string][]byte, len(s.data))
	for k, v := range s.data {
		out[k] = v
	}
	return out
}

// LogLen is the number of atomic operations applied so far.
func (s *Store) LogLen() int {
	s.mu.Lock()
	defer s.mu.Unlock()
	return len(s.Log)
}

// Getter adapts the store to reference walkers.
func (s *Store) Getter() func([]byte) ([]byte, bool) {
	return func(k []byte) ([]byte, bool) {
		v, err := s.Get(k)
		return v, err == nil
	}
}

type batch struct {
	mu   sync.Mutex
	s    *Store
	recs []Rec
	done bool
}

func (s *Store) NewBatch() storage.Batcher { return &batch{s: s} }

func (b *batch) Put(k, v []byte) error {
	b.mu.Lock()
	defer b.mu.Unlock()
	b.recs = append(b.recs, Rec{Key: string(k), Val: append([]byte(nil), v...)})
	return nil
}

func (b *batch) Delete(k []byte) error {
	b.mu.Lock()
	defer b.mu.Unlock()
	b.recs = append(b.recs, Rec{Key: string(k), Del: true})
	return nil
}

func (b *batch) Commit(bool) error {
	b.mu.Lock()
	defer b.mu.Unlock()
	if len(b.recs) == 0 {
		return nil
	}
	b.s.mu.Lock()
	defer b.s.mu.Unlock()
	b.s.apply(Op{Batch: true, Recs: b.recs}, true)
	b.recs = nil
	return nil
}
