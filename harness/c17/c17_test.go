// C17 — missing-node detection is exact and sync repair restores the trie.
package c17

import (
	"bytes"
	"context"
	"errors"
	"fmt"
	"sort"
	"strings"
	"testing"

	"github.com/0chain/common/core/util"
	"pgregory.net/rapid"

	"verif/harness/internal/ev"
	"verif/harness/internal/gen"
	"verif/harness/internal/mptkit"
	"verif/harness/internal/refmpt"
)

func TestMain(m *testing.M) {
	ev.SetMeta(ev.Meta{
		Property: "C17", Level: "fault_enumeration",
		Rule: "rapid draws a trie content (1..14 prefix-sharing keys, built by a history with deletes) at version v0 in a memory store. For each content the fault sets are ENUMERATED: every single reachable non-root node removed, every whole subtree removed, plus drawn scattered subsets; each damaged store is opened by a fresh trie (fresh cache) at version v0, v0+1 or v0+5. " +
			"Oracle: the harness's own walker over the damaged store gives M = absent keys referenced by present reachable nodes; HasMissingNodes = (M non-empty), GetAllMissingNodes = M as a set, lookups of keys below an absent node fail and all others return the model value, Iterate errs iff M non-empty and yields only model values; then MergeDB from a donor holding exactly the removed nodes (or the whole original store) must give a store on which a fresh trie has no missing nodes, the model content and the same root, with every donor entry byte-identical to its pre-merge snapshot. " +
			"In a third of the scenarios the nodes vanish under a long-lived trie that has read all of its content (warm node cache): detection then goes through CloneMPT of it and the long-lived trie performs the repair. One evaluation = one (content, removal set, version, donor mode). Non-trivial = removal contains an interior node and the trie version differs from the node origins, or >=2 disjoint subtrees are removed; distinct = distinct (content, removal set, version).",
		Assumptions: []string{"nodes are removed from a MemoryNodeDB copy; the root node itself is never removed (the property quantifies over non-root nodes)", "the damaged store is opened with a fresh state cache, otherwise cached nodes hide the removal"},
	})
	ev.Main(m)
}

type scenario struct {
	Ops     []mptkit.Op `json:"ops"`
	V0      int64       `json:"v0"`
	Version int64       `json:"version"`
	Removed []string    `json:"removed_hex"`
	Donor   string      `json:"donor"`
}

func copyDB(src *util.MemoryNodeDB, skip map[string]bool) *util.MemoryNodeDB {
	dst := util.NewMemoryNodeDB()
	_ = src.Iterate(context.Background(), func(ctx context.Context, key util.Key, node util.Node) error {
		if !skip[string(key)] {
			_ = dst.PutNode(append(util.Key(nil), key...), node)
		}
		return nil
	})
	return dst
}

type fataler interface{ Fatalf(string, ...any) }

func keysOf(m map[string]bool) []string {
	var out []string
	for k := range m {
		out = append(out, fmt.Sprintf("%x", k))
	}
	sort.Strings(out)
	return out
}

// runScenario checks detection and repair for one removal set.
func runScenario(t fataler, full *util.MemoryNodeDB, root []byte, model map[string][]byte, removed map[string]bool, version int64, donorMode string, desc func() string) {
	runScenarioW(t, full, root, model, removed, version, donorMode, "cold", desc)
}

// warm: the nodes vanish from the store of a long-lived trie that has read all of its content before (its node cache
// still holds them). Detection then goes through CloneMPT of that trie (a clone answers from the store), the repair is
// done by the long-lived trie itself.
func runScenarioW(t fataler, full *util.MemoryNodeDB, root []byte, model map[string][]byte, removed map[string]bool, version int64, donorMode string, mode string, desc func() string) {
	warm, layered := mode == "warm", mode == "layered"
	var damaged util.NodeDB = copyDB(full, removed)
	var long *util.MerklePatriciaTrie
	open := func() *util.MerklePatriciaTrie { return mptkit.NewTrie(damaged, version, root) }
	if warm {
		mem := copyDB(full, nil)
		damaged = mem
		long = mptkit.NewTrie(damaged, version, root)
		if c, err := mptkit.Content(long); err != nil || !mptkit.EqualContent(c, model) {
			t.Fatalf("%s: HARNESS: long-lived trie reads %s (%v) before the damage", desc(), mptkit.Show(c), err)
		}
		for k := range removed {
			if err := mem.DeleteNode(util.Key(k)); err != nil {
				t.Fatalf("%s: HARNESS: DeleteNode: %v", desc(), err)
			}
		}
		open = func() *util.MerklePatriciaTrie { return util.CloneMPT(long) }
	}
	if layered {
		// the trie's store is a level over the complete lower store; the nodes are removed through the level (which
		// remembers what it deleted) and from the lower store
		lower := copyDB(full, nil)
		level := util.NewLevelNodeDB(util.NewMemoryNodeDB(), lower, false)
		for k := range removed {
			if err := level.DeleteNode(util.Key(k)); err != nil {
				t.Fatalf("%s: HARNESS: level.DeleteNode: %v", desc(), err)
			}
			if err := lower.DeleteNode(util.Key(k)); err != nil {
				t.Fatalf("%s: HARNESS: lower.DeleteNode: %v", desc(), err)
			}
		}
		damaged = level
	}
	walkDB := damaged
	if mode == "rebased" {
		// the trie lived on a level over the complete store; then its store is exchanged (SetNodeDB) for one that lacks
		// nodes: from then on only that store counts
		lvl := util.NewLevelNodeDB(util.NewMemoryNodeDB(), copyDB(full, nil), false)
		lived := mptkit.NewTrie(lvl, version, root)
		lived.SetNodeDB(damaged)
		damaged = lvl
		open = func() *util.MerklePatriciaTrie { return util.CloneMPT(lived) }
	}
	w := refmpt.WalkFrom(root, mptkit.GetterOf(walkDB), false)
	M := w.Missing
	mpt := open()

	has, err := mpt.HasMissingNodes(context.Background())
	if err != nil || has != (len(M) > 0) {
		t.Fatalf("%s: HasMissingNodes = %v, %v; walker finds %d missing", desc(), has, err, len(M))
	}
	all, err := open().GetAllMissingNodes()
	if err != nil {
		t.Fatalf("%s: GetAllMissingNodes: %v", desc(), err)
	}
	got := map[string]bool{}
	for _, k := range all {
		got[string(k)] = true
	}
	if fmt.Sprint(keysOf(got)) != fmt.Sprint(keysOf(M)) {
		t.Fatalf("%s: GetAllMissingNodes = %v, walker says %v", desc(), keysOf(got), keysOf(M))
	}
	broken := func(p string) bool {
		for b := range w.BrokenAt {
			if strings.HasPrefix(p, b) {
				return true
			}
		}
		return false
	}
	lk := open()
	for p, want := range model {
		v, err := lk.GetNodeValueRaw(util.Path(p))
		if broken(p) {
			if err == nil {
				t.Fatalf("%s: lookup %q below an absent node returned %x", desc(), p, v)
			}
			if errors.Is(err, util.ErrValueNotPresent) {
				t.Fatalf("%s: lookup %q below an absent node answered 'not present' (wrong data: the key is live)", desc(), p)
			}
		} else if err != nil || !bytes.Equal(v, want) {
			t.Fatalf("%s: lookup %q = %x, %v; want %x", desc(), p, v, err, want)
		}
		for _, q := range []string{p + "00", p + "ff"} {
			if _, live := model[q]; !live {
				if v, err := lk.GetNodeValueRaw(util.Path(q)); err == nil {
					t.Fatalf("%s: lookup of absent %q returned %x", desc(), q, v)
				}
			}
		}
	}
	it := open()
	yielded := map[string][]byte{}
	absentSeen := map[string]bool{}
	ierr := it.Iterate(context.Background(), func(ctx context.Context, path util.Path, key util.Key, node util.Node) error {
		if node == nil {
			absentSeen[string(key)] = true // the iteration reports an absent node by handing over its key without a node
			return nil
		}
		if vn, ok := node.(*util.ValueNode); ok {
			yielded[string(append([]byte(nil), path...))] = vn.GetValueBytes()
		}
		return nil
	}, util.NodeTypeValueNode)
	if fmt.Sprint(keysOf(absentSeen)) != fmt.Sprint(keysOf(M)) {
		t.Fatalf("%s: Iterate reported the absent nodes %v, walker says %v", desc(), keysOf(absentSeen), keysOf(M))
	}
	recorded := map[string]bool{}
	for _, k := range it.GetMissingNodeKeys() {
		recorded[string(k)] = true
	}
	if fmt.Sprint(keysOf(recorded)) != fmt.Sprint(keysOf(M)) {
		t.Fatalf("%s: GetMissingNodeKeys after a full iteration = %v, walker says %v", desc(), keysOf(recorded), keysOf(M))
	}
	if (ierr != nil) != (len(M) > 0) {
		t.Fatalf("%s: Iterate error = %v with %d missing", desc(), ierr, len(M))
	}
	for p, v := range yielded {
		if want, ok := model[p]; !ok || !bytes.Equal(want, v) {
			t.Fatalf("%s: Iterate yielded %q=%x, model has %x", desc(), p, v, model[p])
		}
	}
	if len(M) == 0 && !mptkit.EqualContent(yielded, model) {
		t.Fatalf("%s: complete store iterates to %s", desc(), mptkit.Show(yielded))
	}

	// repair
	var donor util.NodeDB
	var donorMem *util.MemoryNodeDB
	if strings.HasPrefix(donorMode, "exact") {
		keep := map[string]bool{}
		_ = full.Iterate(context.Background(), func(ctx context.Context, key util.Key, node util.Node) error {
			if !removed[string(key)] {
				keep[string(key)] = true
			}
			return nil
		})
		donorMem = copyDB(full, keep)
	} else {
		donorMem = copyDB(full, nil)
	}
	// a prune pass on the donor's side has marked a third of its nodes with a newer version (the mark is not part of a
	// node's identity)
	if version%2 == 1 {
		marked := util.NewMemoryNodeDB()
		i := 0
		_ = donorMem.Iterate(context.Background(), func(ctx context.Context, key util.Key, node util.Node) error {
			nd := node.CloneNode()
			if i%3 == 0 {
				nd.SetVersion(nd.GetOrigin() + util.Sequence(2+i%5))
			}
			i++
			return marked.PutNode(key, nd)
		})
		donorMem = marked
	}
	donor = donorMem
	// the donor is a plain memory store, or a level whose nodes are spread over its two layers, or a level over a
	// persistent store that holds all of them
	donorKind := []string{"memory", "memory", "level-mem", "level-persistent"}[(len(removed)+int(version))%4]
	switch donorKind {
	case "level-mem":
		cur, prev := util.NewMemoryNodeDB(), util.NewMemoryNodeDB()
		i := 0
		_ = donorMem.Iterate(context.Background(), func(ctx context.Context, key util.Key, node util.Node) error {
			// a third of the nodes in the upper layer, a third in the lower one, a third in both (a block state that changed
			// a value and changed it back holds nodes its parent state holds as well)
			if i%3 != 1 {
				_ = cur.PutNode(key, node.CloneNode())
			}
			if i%3 != 0 {
				_ = prev.PutNode(key, node.CloneNode())
			}
			i++
			return nil
		})
		lvl := util.NewLevelNodeDB(cur, prev, false)
		// the level has replaced some nodes that only its lower layer holds (it remembers such deletions, the lower
		// layer keeps the nodes and the level goes on serving them)
		j := 0
		_ = prev.Iterate(context.Background(), func(ctx context.Context, key util.Key, node util.Node) error {
			if _, err := cur.GetNode(key); err != nil {
				if j%2 == 0 {
					_ = lvl.DeleteNode(key)
				}
				j++
			}
			return nil
		})
		donor = lvl
	case "level-persistent":
		p, dir := mptkit.NewPNodeDB()
		defer mptkit.DropDir(dir)
		_ = donorMem.Iterate(context.Background(), func(ctx context.Context, key util.Key, node util.Node) error {
			return p.PutNode(key, node.CloneNode())
		})
		donor = util.NewLevelNodeDB(util.NewMemoryNodeDB(), p, false)
	}
	{
		d0 := desc
		desc = func() string { return d0() + " [donor store: " + donorKind + "]" }
	}
	snap := map[string][]byte{}
	snapN := 0
	_ = donor.Iterate(context.Background(), func(ctx context.Context, key util.Key, node util.Node) error {
		snap[string(key)] = node.Encode()
		snapN++
		return nil
	})
	rep := mptkit.NewTrie(damaged, version, root)
	if warm {
		rep = long
	} else if pre, err := rep.HasMissingNodes(context.Background()); err != nil || pre != (len(M) > 0) {
		// the repairing trie has itself run into the absent nodes before the repair
		t.Fatalf("%s: repairing trie: HasMissingNodes before repair = %v, %v", desc(), pre, err)
	}
	for p := range model {
		_, _ = rep.GetNodeValueRaw(util.Path(p))
		break
	}
	if strings.HasSuffix(donorMode, "+MergeState") {
		// the other sync path: bulk copy of the donor store into the trie's store
		if err := util.MergeState(context.Background(), donor, damaged); err != nil {
			t.Fatalf("%s: MergeState: %v", desc(), err)
		}
	} else if err := rep.MergeDB(donor, root, nil); err != nil {
		t.Fatalf("%s: MergeDB: %v", desc(), err)
	}
	if !bytes.Equal(rep.GetRoot(), root) {
		t.Fatalf("%s: root changed by the repair", desc())
	}
	// first the harness's own walk over the repaired store (it visits every node once, so a store in which nodes sit
	// under foreign keys cannot send it round in circles as it could the library's recursive walks below)
	if rw := refmpt.WalkFrom(root, mptkit.GetterOf(damaged), false); len(rw.Missing) > 0 || len(rw.Problems) > 0 || !mptkit.EqualContent(rw.Content, model) {
		t.Fatalf("%s: after the repair the store resolves %d of %d pairs from the root, %d nodes missing, problems %v", desc(), len(rw.Content), len(model), len(rw.Missing), rw.Problems)
	}
	// the same trie object that saw the absent nodes reports a complete trie after the repair
	if has, err := rep.HasMissingNodes(context.Background()); err != nil || has {
		t.Fatalf("%s: the repaired trie itself still says HasMissingNodes = %v, %v", desc(), has, err)
	}
	if all, err := rep.GetAllMissingNodes(); err != nil || len(all) != 0 {
		t.Fatalf("%s: the repaired trie itself still lists %d missing nodes (%v)", desc(), len(all), err)
	}
	fresh := mptkit.NewTrie(damaged, version, root)
	has, err = fresh.HasMissingNodes(context.Background())
	if err != nil || has {
		t.Fatalf("%s: after repair HasMissingNodes = %v, %v (walker: %d missing)", desc(), has, err, len(refmpt.WalkFrom(root, mptkit.GetterOf(damaged), false).Missing))
	}
	content, err := mptkit.Content(mptkit.NewTrie(damaged, version, root))
	if err != nil || !mptkit.EqualContent(content, model) {
		t.Fatalf("%s: after repair content %s (%v), want %s", desc(), mptkit.Show(content), err, mptkit.Show(model))
	}
	// the merging trie itself reads the full content too
	if !strings.HasSuffix(donorMode, "+MergeState") {
		content, err = mptkit.Content(rep)
		if err != nil || !mptkit.EqualContent(content, model) {
			t.Fatalf("%s: merging trie reads %s (%v) after MergeDB", desc(), mptkit.Show(content), err)
		}
	}
	n := 0
	_ = donor.Iterate(context.Background(), func(ctx context.Context, key util.Key, node util.Node) error {
		n++
		if !bytes.Equal(snap[string(key)], node.Encode()) || !bytes.Equal(node.GetHashBytes(), key) {
			t.Fatalf("%s: donor entry %x changed by MergeDB (now hashes to %x)", desc(), key, node.GetHashBytes())
		}
		return nil
	})
	if n != snapN {
		t.Fatalf("%s: donor iterates %d entries, before the repair %d", desc(), n, snapN)
	}
}

// subtree returns the keys of all present nodes below (and including) key.
func subtree(w *refmpt.Walk, key string, out map[string]bool) {
	n := w.Reachable[key]
	if n == nil {
		return
	}
	out[key] = true
	switch n.Type {
	case refmpt.TBranch:
		for _, c := range n.Children {
			if c != nil {
				subtree(w, string(c), out)
			}
		}
	case refmpt.TExt:
		subtree(w, string(n.Child), out)
	}
}

func TestMissingNodesAndRepair(t *testing.T) {
	ev.Rapid(t, 250, 3000)
	rapid.Check(t, func(rt *rapid.T) {
		v0 := int64(rapid.IntRange(0, 3).Draw(rt, "v0"))
		full := util.NewMemoryNodeDB()
		mpt := mptkit.NewTrie(full, v0, nil)
		model := map[string][]byte{}
		var used []string
		ops := mptkit.GenOpsP(rt, model, &used, gen.Uniform(rt, 3, 24, "nops"), 3, 15, "o")
		deep := gen.Chance(rt, 8, "deep")
		if deep {
			// a trie that is dozens of nodes deep along one path: every prefix (in whole bytes) of one long key is a key
			dl := gen.Uniform(rt, 17, 32, "deeplen")
			if gen.Chance(rt, 12, "verydeep") {
				dl = gen.Uniform(rt, 65, 68, "verydeeplen") // more than 128 node levels
			}
			p := mptkit.GenFixedPath(rt, dl, "deeppath")
			for i := 2; i <= len(p); i += 2 {
				v := []byte{byte(i), 0xd0}
				ops = append(ops, mptkit.Op{Kind: "ins", Path: p[:i], Val: fmt.Sprintf("%x", v)})
				model[p[:i]] = v
			}
		}
		if err := mptkit.Apply(mpt, ops); err != nil {
			rt.Fatalf("build %v: %v", ops, err)
		}
		if len(model) == 0 {
			rt.Skip("empty content")
		}
		root := append([]byte(nil), mpt.GetRoot()...)
		w := refmpt.WalkFrom(root, mptkit.GetterOf(full), true)
		if len(w.Problems) > 0 || len(w.Missing) > 0 {
			rt.Fatalf("build %v produced a broken store: %v", ops, w.Problems)
		}
		var nonRoot []string
		for k := range w.Reachable {
			if k != string(root) {
				nonRoot = append(nonRoot, k)
			}
		}
		sort.Strings(nonRoot)
		versions := []int64{v0, v0 + 1, v0 + 5}
		vi := rapid.IntRange(0, 2).Draw(rt, "vi")
		var sets []map[string]bool
		var kinds []string
		sets = append(sets, map[string]bool{})
		kinds = append(kinds, "none")
		for _, k := range nonRoot {
			sets = append(sets, map[string]bool{k: true})
			kinds = append(kinds, "single")
			st := map[string]bool{}
			subtree(w, k, st)
			if len(st) > 1 {
				sets = append(sets, st)
				kinds = append(kinds, "subtree")
			}
		}
		if len(nonRoot) >= 2 {
			for i := 0; i < 3; i++ {
				pick := rapid.SliceOfNDistinct(rapid.SampledFrom(nonRoot), 2, min(5, len(nonRoot)), rapid.ID[string]).Draw(rt, fmt.Sprintf("scatter%d", i))
				st := map[string]bool{}
				for _, k := range pick {
					st[k] = true
				}
				sets = append(sets, st)
				kinds = append(kinds, "scattered")
			}
		}
		for i, removed := range sets {
			// every enumerated set runs at the drawn version, and at the other two in rotation
			version := versions[(vi+i)%3]
			donorMode := []string{"exact", "superset", "exact+MergeState", "superset+MergeState"}[i%4]
			interior := false
			tops := 0
			for k := range removed {
				if n := w.Reachable[k]; n != nil && n.Type != refmpt.TLeaf {
					interior = true
				}
			}
			// count disjoint removed subtrees = removed nodes whose parent is not removed
			dw := refmpt.WalkFrom(root, mptkit.GetterOf(copyDB(full, removed)), false)
			tops = len(dw.Missing)
			desc := func() string {
				return fmt.Sprintf("ops %v v0=%d version=%d removed=%v (%s) donor=%s", ops, v0, version, keysOf(removed), kinds[i], donorMode)
			}
			mode := []string{"cold", "rebased", "warm", "layered", "cold", "warm", "cold"}[i%7]
			warm := mode == "warm"
			desc0 := desc
			if warm {
				desc = func() string { return desc0() + " [nodes vanish under a long-lived trie with a warm node cache]" }
			}
			if mode == "layered" {
				desc = func() string { return desc0() + " [the store is a level over the lower store; nodes deleted through the level and below]" }
			}
			runScenarioW(rt, full, root, model, removed, version, donorMode, mode, desc)
			nt := (interior && version != v0) || tops >= 2
			cls := []string{"removal:" + kinds[i], "donor:" + donorMode}
			if deep {
				cls = append(cls, "trie-more-than-32-nodes-deep")
			}
			if warm {
				cls = append(cls, "warm-long-lived-trie")
			}
			if mode == "layered" {
				cls = append(cls, "layered-store")
			}
			if mode == "rebased" {
				cls = append(cls, "store-exchanged-under-a-trie-on-a-level")
			}
			if version != v0 {
				cls = append(cls, "version-differs")
			} else {
				cls = append(cls, "version-equal")
			}
			cls = append(cls, fmt.Sprintf("missing:%d", min(tops, 3)), fmt.Sprintf("keys:%d-%d", len(model)/4*4, len(model)/4*4+3))
			ev.Case(fmt.Sprintf("%v|%d|%d|%v", ops, v0, version, keysOf(removed)), nt, cls...)
			if nt && ev.WantSample() {
				ev.Sample(scenario{Ops: ops, V0: v0, Version: version, Removed: keysOf(removed), Donor: donorMode})
			}
		}
	})
}

// Large tries (more than 256 nodes, the store batch size): whole subtrees removed, repaired through both sync paths.
func TestLargeRepair(t *testing.T) {
	ev.Rapid(t, 6, 60)
	rapid.Check(t, func(rt *rapid.T) {
		full := util.NewMemoryNodeDB()
		mpt := mptkit.NewTrie(full, 0, nil)
		model := map[string][]byte{}
		n := gen.Uniform(rt, 300, 700, "nkeys")
		leavesOnly := gen.Chance(rt, 50, "leavesonly")
		if leavesOnly {
			n = gen.Uniform(rt, 1200, 2600, "nkeysmany")
		}
		for i := 0; i < n; i++ {
			p := fmt.Sprintf("%02x%02x%02x", (i*37)%256, (i*11)%256, i%256)
			if leavesOnly {
				p = fmt.Sprintf("%02x%02x%02x%02x", (i*37)%256, (i*11)%256, i%256, (i>>8)%256)
			}
			v := []byte{byte(i), byte(i >> 8), 7}
			if _, err := mpt.Insert(util.Path(p), mptkit.Val(v)); err != nil {
				rt.Fatalf("HARNESS: %v", err)
			}
			model[p] = v
		}
		root := append([]byte(nil), mpt.GetRoot()...)
		w := refmpt.WalkFrom(root, mptkit.GetterOf(full), false)
		// remove everything below some children of the root (hundreds of nodes)
		removed := map[string]bool{}
		rn := w.Reachable[string(root)]
		var tops []string
		if rn.Type == refmpt.TBranch {
			for _, c := range rn.Children {
				if c != nil {
					tops = append(tops, string(c))
				}
			}
		} else if rn.Type == refmpt.TExt {
			tops = append(tops, string(rn.Child))
		}
		for _, tp := range tops {
			if gen.Chance(rt, 60, "dropsubtree") {
				subtree(w, tp, removed)
			}
		}
		if len(removed) <= 256 {
			for _, tp := range tops {
				subtree(w, tp, removed)
			}
		}
		if leavesOnly {
			// only leaves go, an exact number of them (each is an absent node reachable through present ones): 256, 512,
			// 1024 and their neighbours, or more than a thousand
			removed = map[string]bool{}
			var leaves []string
			for k, nd := range w.Reachable {
				if nd.Type == refmpt.TLeaf {
					leaves = append(leaves, k)
				}
			}
			sort.Strings(leaves)
			want := gen.Pick(rt, []int{255, 256, 257, 512, 1023, 1024, 1025, 1100, 1300, 1700, 2048}, "nleaves")
			if want > len(leaves) {
				want = len(leaves)
			}
			off := gen.Uniform(rt, 0, len(leaves)-want, "leafoff")
			for _, k := range leaves[off : off+want] {
				removed[k] = true
			}
		}
		version := int64(gen.Pick(rt, []int{0, 3}, "version"))
		mode := gen.Pick(rt, []string{"exact", "superset", "exact+MergeState", "superset+MergeState"}, "mode")
		if leavesOnly && gen.Chance(rt, 40, "modemergedb") {
			mode = "exact"
		}
		desc := func() string {
			return fmt.Sprintf("large trie of %d keys (%d nodes), %d nodes removed, version %d, donor %s", n, len(w.Reachable), len(removed), version, mode)
		}
		runScenario(rt, full, root, model, removed, version, mode, desc)
		ev.Case(desc(), true, "large-repair>256-nodes", "donor:"+mode)
		ev.Sample(map[string]any{"keys": n, "nodes": len(w.Reachable), "removed": len(removed), "donor": mode, "version": version})
	})
}

// A leaf that carries a value of exactly the largest accepted size is among the absent nodes; both repair paths must
// bring it back.
func TestRepairWithValueAtTheSizeLimit(t *testing.T) {
	ev.Guard(t, "TestRepairWithValueAtTheSizeLimit", func() {
		full := util.NewMemoryNodeDB()
		mpt := mptkit.NewTrie(full, 1, nil)
		model := map[string][]byte{}
		big := bytes.Repeat([]byte{0x3a, 0x01, 0x00, 0x7f}, util.MPTMaxAllowableNodeSize/4)
		for i, p := range []string{"07f5", "07f6", "0a", "0a11", "ff00aa", "12"} {
			v := []byte{byte(i), 0x3a}
			if p == "07f5" {
				v = big
			}
			if _, err := mpt.Insert(util.Path(p), mptkit.Val(v)); err != nil {
				t.Fatalf("HARNESS: insert %q: %v", p, err)
			}
			model[p] = v
		}
		root := append([]byte(nil), mpt.GetRoot()...)
		w := refmpt.WalkFrom(root, mptkit.GetterOf(full), true)
		removed := map[string]bool{}
		for k := range w.Reachable {
			if k != string(root) {
				removed[k] = true
			}
		}
		for i, donorMode := range []string{"exact+MergeState", "superset+MergeState", "exact", "superset"} {
			desc := func() string {
				return fmt.Sprintf("6 keys, one value of %d bytes, all %d non-root nodes removed, donor=%s", len(big), len(removed), donorMode)
			}
			runScenarioW(t, full, root, model, removed, int64(1+i%2), donorMode, "cold", desc)
			ev.Case("size-limit-repair/"+donorMode, true, "value-at-the-size-limit")
		}
	})
}

// One fixed large repair through MergeDB: more than a thousand absent leaves, brought back from a donor that holds
// exactly them (1100..1300 nodes in one call).
func TestRepairOfMoreThanAThousandNodes(t *testing.T) {
	ev.Guard(t, "TestRepairOfMoreThanAThousandNodes", func() {
		seed := ev.SeedFor("TestRepairOfMoreThanAThousandNodes")
		full := util.NewMemoryNodeDB()
		mpt := mptkit.NewTrie(full, 0, nil)
		model := map[string][]byte{}
		n := 2200 + int(seed%300)
		for i := 0; i < n; i++ {
			p := fmt.Sprintf("%02x%02x%02x%02x", (i*37)%256, (i*11)%256, i%256, (i>>8)%256)
			v := []byte{byte(i), byte(i >> 8), 9}
			if _, err := mpt.Insert(util.Path(p), mptkit.Val(v)); err != nil {
				t.Fatalf("HARNESS: %v", err)
			}
			model[p] = v
		}
		root := append([]byte(nil), mpt.GetRoot()...)
		w := refmpt.WalkFrom(root, mptkit.GetterOf(full), false)
		var leaves []string
		for k, nd := range w.Reachable {
			if nd.Type == refmpt.TLeaf {
				leaves = append(leaves, k)
			}
		}
		sort.Strings(leaves)
		want := 1100 + int(seed%200)
		removed := map[string]bool{}
		for _, k := range leaves[:want] {
			removed[k] = true
		}
		desc := func() string {
			return fmt.Sprintf("trie of %d keys, %d leaves removed, repaired by one MergeDB call from a donor holding exactly them", n, want)
		}
		runScenario(t, full, root, model, removed, int64(seed%2)*2, "exact", desc)
		ev.Case(desc(), true, "repair-of-more-than-1000-nodes")
	})
}
