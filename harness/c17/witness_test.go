package c17

import (
	"context"
	"testing"

	"github.com/0chain/common/core/util"

	"verif/harness/internal/ev"
	"verif/harness/internal/mptkit"
)

func TestWitnesses(t *testing.T) {
	ev.Witness(t, "C17-mergedb-restamps-origin", func() string {
		full := util.NewMemoryNodeDB()
		m := mptkit.NewTrie(full, 0, nil)
		for _, p := range []string{"10", "f0"} {
			if _, err := m.Insert(util.Path(p), mptkit.Val([]byte{1})); err != nil {
				return err.Error()
			}
		}
		root := m.GetRoot()
		var victim util.Key
		_ = full.Iterate(context.Background(), func(ctx context.Context, key util.Key, node util.Node) error {
			if _, ok := node.(*util.LeafNode); ok && victim == nil {
				victim = append(util.Key(nil), key...)
			}
			return nil
		})
		damaged := copyDB(full, map[string]bool{string(victim): true})
		rep := mptkit.NewTrie(damaged, 1, root) // trie version 1, nodes created at 0
		if err := rep.MergeDB(full, root, nil); err != nil {
			return err.Error()
		}
		if has, _ := mptkit.NewTrie(damaged, 1, root).HasMissingNodes(context.Background()); has {
			return "remove one leaf, MergeDB from the full store at version != origin: the trie still has missing nodes"
		}
		bad := ""
		_ = full.Iterate(context.Background(), func(ctx context.Context, key util.Key, node util.Node) error {
			if string(node.GetHashBytes()) != string(key) {
				bad = "donor node no longer hashes to its key after MergeDB"
			}
			return nil
		})
		return bad
	})
}
