// C01 — the state trie behaves as a map from paths to values.
package c01

import (
	"bytes"
	"context"
	"errors"
	"fmt"
	"strings"
	"testing"

	"github.com/0chain/common/core/util"
	"pgregory.net/rapid"

	"verif/harness/internal/ev"
	"verif/harness/internal/gen"
	"verif/harness/internal/mptkit"
)

func TestMain(m *testing.M) {
	ev.SetMeta(ev.Meta{
		Property: "C01", Level: "exploration",
		Rule: "rapid-generated operation histories (6..40 steps) over one trie on a drawn store stack (memory, layered memory, layered persistent, persistent): insert, insert of empty/nil value, insert of an over-size value, delete, typed get, version bump, reopen (fresh trie object and cache at the current root). " +
			"Paths are even-length lower-case hex over a small byte alphabet; ~40% are truncations/extensions/siblings of paths already used, ~8% the empty path; a second mode draws fixed-length paths, a third paths of 16..48 hex characters made mostly of repeated \"00\" bytes (whole stretches repeat inside and between paths). Oracle: map[path]value, compared after every step by lookups of every live key and of absent neighbours, by a full Iterate, and by the step's own return value/error. " +
			"Further operations: a second reader with its own cold node cache (CloneMPT) iterating the whole trie, IterateFrom(root), the typed lookup, and twin keys (one nibble changed, same rest path and value). Non-trivial = the history deletes a present key and (contains two live-at-some-time keys where one is a proper prefix of the other, or operates on the empty path); distinct = distinct operation list.",
		Assumptions: []string{"persistent kinds run on the in-memory grocksdb stand-in (atomic ordered writes, point reads)", "callers never mutate a path or value buffer after passing it in"},
	})
	ev.Main(m)
}

var oversize = bytes.Repeat([]byte{0x5a}, util.MPTMaxAllowableNodeSize+1)

type op struct {
	Kind string `json:"k"`
	Path string `json:"p,omitempty"`
	Val  string `json:"v,omitempty"`
}

func (o op) String() string {
	if o.Val != "" {
		return fmt.Sprintf("%s(%q,%s)", o.Kind, o.Path, o.Val)
	}
	return fmt.Sprintf("%s(%q)", o.Kind, o.Path)
}

type machine struct {
	t       *rapid.T
	store   *mptkit.Store
	mpt     *util.MerklePatriciaTrie
	model   map[string][]byte
	used    []string
	version int64
	hist    []op
}

func (m *machine) failf(f string, a ...any) {
	var hs []string
	for _, o := range m.hist {
		hs = append(hs, o.String())
	}
	m.t.Fatalf("%s\nstore=%s version=%d\nhistory: %s\nmodel: %s", fmt.Sprintf(f, a...), m.store.Kind, m.version, strings.Join(hs, "; "), mptkit.Show(m.model))
}

// check compares the whole observable state with the model.
func (m *machine) check() {
	for p, want := range m.model {
		got, err := m.mpt.GetNodeValueRaw(util.Path(p))
		if err != nil || !bytes.Equal(got, want) {
			m.failf("lookup %q = %x, %v; want %x", p, got, err, want)
		}
		// the result belongs to the caller: overwriting it must not change what is stored
		for i := range got {
			got[i] ^= 0xff
		}
	}
	// absent neighbours: every live key truncated by a byte, extended by a byte, and the empty path
	probe := map[string]bool{"": true}
	for p := range m.model {
		if len(p) >= 2 {
			probe[p[:len(p)-2]] = true
		}
		probe[p+"00"] = true
		probe[p+"ff"] = true
	}
	for _, p := range m.used {
		probe[p] = true
	}
	for p := range probe {
		if _, live := m.model[p]; live {
			continue
		}
		got, err := m.mpt.GetNodeValueRaw(util.Path(p))
		if !errors.Is(err, util.ErrValueNotPresent) {
			m.failf("lookup of absent %q = %x, %v; want ErrValueNotPresent", p, got, err)
		}
	}
	got, err := mptkit.Content(m.mpt)
	if err != nil {
		m.failf("Iterate: %v", err)
	}
	if !mptkit.EqualContent(got, m.model) {
		m.failf("Iterate yields %s", mptkit.Show(got))
	}
	err = m.mpt.Iterate(context.Background(), func(context.Context, util.Path, util.Key, util.Node) error { return nil }, util.NodeTypesAll)
	if err != nil {
		m.failf("Iterate(all node types): %v", err)
	}
	// the other iteration entry point, started at the root, and the typed lookup agree with the model too
	if root := m.mpt.GetRoot(); len(root) > 0 {
		from := map[string][]byte{}
		err = m.mpt.IterateFrom(context.Background(), root, func(_ context.Context, path util.Path, _ util.Key, node util.Node) error {
			if vn, ok := node.(*util.ValueNode); ok {
				from[string(append([]byte(nil), path...))] = vn.GetValueBytes()
			}
			return nil
		}, util.NodeTypeValueNode)
		if err != nil || !mptkit.EqualContent(from, m.model) {
			m.failf("IterateFrom(root) yields %s (%v)", mptkit.Show(from), err)
		}
	}
	if ks := mptkit.SortedKeys(m.model); len(ks) > 0 {
		p := ks[len(m.hist)%len(ks)]
		var v util.SecureSerializableValue
		if err := m.mpt.GetNodeValue(util.Path(p), &v); err != nil || !bytes.Equal(v.Buffer, m.model[p]) {
			m.failf("GetNodeValue(%q) = %x, %v; want %x", p, v.Buffer, err, m.model[p])
		}
	}
	if len(m.model) == 0 && len(m.mpt.GetRoot()) != 0 {
		m.failf("empty content but root %x", m.mpt.GetRoot())
	}
}

func (m *machine) note(p string) {
	for _, u := range m.used {
		if u == p {
			return
		}
	}
	m.used = append(m.used, p)
}

type traits struct {
	deletePresent, prefixPair, emptyPath, versionBump, reopen bool
	absentPrefixDelete, absentExtDelete, oversize, emptyValue bool
	coldReader                                                bool
}

func properPrefixPair(keys []string, p string) bool {
	for _, k := range keys {
		if k != p && (strings.HasPrefix(k, p) || strings.HasPrefix(p, k)) {
			return true
		}
	}
	return false
}

func runHistory(rt *rapid.T, kind string, fixed bool) {
	m := &machine{t: rt, store: mptkit.NewStore(kind), model: map[string][]byte{}}
	defer m.store.Close()
	m.version = int64(rapid.IntRange(0, 3).Draw(rt, "v0"))
	var root util.Key
	genesis := false
	lowerCheck := func() {}
	if lndb, ok := m.store.DB.(*util.LevelNodeDB); ok && gen.Chance(rt, 60, "genesis") {
		// the lower level already holds state (a previous block), written at this version or the one before
		g := mptkit.NewTrie(lndb.GetPrev(), m.version, nil)
		ops := mptkit.GenOpsP(rt, m.model, &m.used, gen.Uniform(rt, 1, 8, "ngen"), 3, 20, "gen")
		if err := mptkit.Apply(g, ops); err != nil {
			rt.Fatalf("HARNESS: genesis %v: %v", ops, err)
		}
		for _, o := range ops {
			m.hist = append(m.hist, op{Kind: "genesis-" + o.Kind, Path: o.Path, Val: o.Val})
		}
		root = g.GetRoot()
		genesis = true
		gmodel, groot, gver, gdb := mptkit.CopyContent(m.model), append([]byte(nil), g.GetRoot()...), m.version, lndb.GetPrev()
		// the state of the previous block sits in the lower level, which the upper level never writes to (deletes are not
		// propagated): whatever the history does on top, a reader of the lower level with a cold cache reads that state
		lowerCheck = func() {
			got, err := mptkit.Content(mptkit.NewTrie(gdb, gver, groot))
			if err != nil || !mptkit.EqualContent(got, gmodel) {
				m.failf("the lower level's own state (root %x) now reads %s (%v); it was %s", groot, mptkit.Show(got), err, mptkit.Show(gmodel))
			}
		}
		if gen.Chance(rt, 50, "nextversion") {
			m.version++
		}
	}
	m.mpt = mptkit.NewTrie(m.store.DB, m.version, root)
	steps := gen.Uniform(rt, 6, 40, "steps")
	maxBytes := gen.Pick(rt, []int{2, 3, 4, 8}, "maxBytes")
	var tr traits
	long := !fixed && gen.Chance(rt, 12, "longpaths")
	genPath := func(label string) string {
		if fixed {
			return mptkit.GenFixedPath(rt, 2, label)
		}
		if long {
			return mptkit.GenLongPath(rt, m.used, label)
		}
		return mptkit.GenPath(rt, m.used, maxBytes, label)
	}
	for i := 0; i < steps; i++ {
		k := gen.Pct(rt, "op")
		before := append([]byte(nil), m.mpt.GetRoot()...)
		switch {
		case k < 45: // insert / overwrite
			p := genPath("p")
			v := mptkit.GenValue(rt, "v")
			m.hist = append(m.hist, op{"ins", p, fmt.Sprintf("%x", v)})
			if properPrefixPair(mptkit.SortedKeys(m.model), p) {
				tr.prefixPair = true
			}
			root, err := mptkit.InsertReused(m.mpt, p, v)
			if err != nil {
				m.failf("Insert(%q): %v", p, err)
			}
			if !bytes.Equal(root, m.mpt.GetRoot()) {
				m.failf("Insert returned root %x, GetRoot %x", root, m.mpt.GetRoot())
			}
			m.model[p] = v
			m.note(p)
			tr.emptyPath = tr.emptyPath || p == ""
		case k < 75: // delete
			p := genPath("p")
			m.hist = append(m.hist, op{Kind: "del", Path: p})
			_, present := m.model[p]
			_, err := m.mpt.Delete(util.Path(p))
			m.afterDelete("Delete", p, present, err, before, &tr)
		case k < 84: // empty / nil value = delete
			p := genPath("p")
			nilv := rapid.Bool().Draw(rt, "nil")
			m.hist = append(m.hist, op{Kind: map[bool]string{true: "insnil", false: "insempty"}[nilv], Path: p})
			_, present := m.model[p]
			var err error
			if nilv {
				_, err = m.mpt.Insert(util.Path(p), nil)
			} else {
				_, err = m.mpt.Insert(util.Path(p), mptkit.Val(nil))
			}
			tr.emptyValue = true
			m.afterDelete("Insert(empty)", p, present, err, before, &tr)
		case k < 85: // over-size value: rejected, nothing changes
			p := genPath("p")
			m.hist = append(m.hist, op{Kind: "oversize", Path: p})
			_, err := m.mpt.Insert(util.Path(p), &util.SecureSerializableValue{Buffer: oversize})
			if err == nil {
				m.failf("over-size insert at %q accepted", p)
			}
			if !bytes.Equal(before, m.mpt.GetRoot()) {
				m.failf("over-size insert changed the root")
			}
			tr.oversize = true
		case k < 87: // a second reader with its own cold node cache walks the whole trie; the first trie goes on afterwards
			m.hist = append(m.hist, op{Kind: "cold-reader"})
			got, err := mptkit.Content(util.CloneMPT(m.mpt))
			if err != nil || !mptkit.EqualContent(got, m.model) {
				m.failf("a cold clone iterates to %s (%v)", mptkit.Show(got), err)
			}
			tr.coldReader = true
			lowerCheck()
		case k < 90: // typed get
			p := genPath("p")
			m.hist = append(m.hist, op{Kind: "gettyped", Path: p})
			var out util.SecureSerializableValue
			err := m.mpt.GetNodeValue(util.Path(p), &out)
			if want, ok := m.model[p]; ok {
				if err != nil || !bytes.Equal(out.Buffer, want) {
					m.failf("GetNodeValue(%q) = %x, %v; want %x", p, out.Buffer, err, want)
				}
			} else if !errors.Is(err, util.ErrValueNotPresent) {
				m.failf("GetNodeValue(absent %q): %v", p, err)
			}
		case k < 95: // version bump
			m.version++
			m.hist = append(m.hist, op{Kind: "version+1"})
			m.mpt.SetVersion(util.Sequence(m.version))
			tr.versionBump = true
		default: // reopen: new trie object, fresh cache, same store, current root
			m.hist = append(m.hist, op{Kind: "reopen"})
			m.mpt = mptkit.NewTrie(m.store.DB, m.version, m.mpt.GetRoot())
			tr.reopen = true
		}
		m.check()
	}
	lowerCheck()
	nt := tr.deletePresent && (tr.prefixPair || tr.emptyPath)
	cls := []string{"store:" + kind}
	add := func(b bool, s string) {
		if b {
			cls = append(cls, s)
		}
	}
	add(fixed, "fixed-length-paths")
	add(long, "long-paths-with-repeated-stretches")
	add(genesis, "lower-level-holds-genesis")
	add(tr.prefixPair, "prefix-pair")
	add(tr.deletePresent, "delete-present")
	add(tr.absentPrefixDelete, "delete-absent-proper-prefix-of-key")
	add(tr.absentExtDelete, "delete-absent-extension-of-key")
	add(tr.emptyPath, "empty-path")
	add(tr.versionBump, "version-bump")
	add(tr.reopen, "reopen")
	add(tr.oversize, "oversize")
	add(tr.emptyValue, "empty-value-delete")
	add(tr.coldReader, "cold-second-reader")
	var sb strings.Builder
	sb.WriteString(kind)
	for _, o := range m.hist {
		sb.WriteString(o.String())
	}
	ev.Case(sb.String(), nt, cls...)
	if nt && ev.WantSample() {
		ev.Sample(map[string]any{"store": kind, "history": m.hist})
	}
}

func (m *machine) afterDelete(what, p string, present bool, err error, before []byte, tr *traits) {
	if present {
		if err != nil {
			m.failf("%s(%q) of a present key: %v", what, p, err)
		}
		delete(m.model, p)
		tr.deletePresent = true
		tr.emptyPath = tr.emptyPath || p == ""
		return
	}
	for k := range m.model {
		if strings.HasPrefix(k, p) {
			tr.absentPrefixDelete = true
		}
		if strings.HasPrefix(p, k) {
			tr.absentExtDelete = true
		}
	}
	if !errors.Is(err, util.ErrValueNotPresent) {
		m.failf("%s(%q) of an absent key returned %v, want ErrValueNotPresent", what, p, err)
	}
	if !bytes.Equal(before, m.mpt.GetRoot()) {
		m.failf("%s(%q) of an absent key changed the root", what, p)
	}
}

func TestMapSemantics(t *testing.T) {
	ev.Rapid(t, 2500, 30000)
	rapid.Check(t, func(rt *rapid.T) {
		kind := gen.Pick(rt, mptkit.StoreKinds, "store")
		fixed := gen.Chance(rt, 10, "fixed")
		runHistory(rt, kind, fixed)
	})
}

// Value lengths: every length from 0 to beyond two 512-byte blocks (and a few around larger powers of two), on keys of
// three lengths, on a memory and on a persistent store; each value is looked up through the writing trie, through a
// trie opened on the root afterwards, and after it was replaced by its neighbour in length.
func TestValueLengths(t *testing.T) {
	ev.Guard(t, "TestValueLengths", func() {
		seed := ev.SeedFor("TestValueLengths")
		lengths := []int{}
		for L := 0; L <= 1100; L++ {
			lengths = append(lengths, L)
		}
		for _, c := range []int{1536, 2048, 4096, 8192, 16384, 32768, 65536, 131072} {
			for d := -70; d <= 2; d++ {
				lengths = append(lengths, c+d)
			}
		}
		keys := []string{"ab", "0123456789abcdef", "0123456789abcdef0123456789abcdef0123456789abcdef0123456789abcdef"}
		for _, kind := range []string{"memory", "pndb"} {
			st := mptkit.NewStore(kind)
			mpt := mptkit.NewTrie(st.DB, int64(seed%4), nil)
			for _, L := range lengths {
				for ki, key := range keys {
					// the first key is empty-valued at L=0: an empty value is a removal there, so lengths start at 1
					if L == 0 {
						continue
					}
					val := bytes.Repeat([]byte{byte(L), byte(seed), 0x3a, byte(ki)}, L/4+1)[:L]
					if _, err := mpt.Insert(util.Path(key), mptkit.Val(val)); err != nil {
						t.Fatalf("%s store: insert of a %d-byte value under %q: %v", kind, L, key, err)
					}
					for name, tr := range map[string]*util.MerklePatriciaTrie{"the writing trie": mpt, "a trie opened on the root": mptkit.NewTrie(st.DB, int64(seed%4), mpt.GetRoot())} {
						got, err := tr.GetNodeValueRaw(util.Path(key))
						if err != nil || !bytes.Equal(got, val) {
							t.Fatalf("%s store: %d-byte value under %q: lookup through %s returns %d bytes (%v)", kind, L, key, name, len(got), err)
						}
					}
					ev.Case(fmt.Sprintf("len/%s/%d/%d", kind, L, ki), (L+len(key))%512 < 4 || L%512 < 2, "value-length-sweep")
				}
				if L > 1100 {
					// around the powers of two the trie is also restructured under these values: the middle key (a prefix of
					// the long one) goes and comes back, the others must still read the same through a cold trie
					if _, err := mpt.Delete(util.Path(keys[1])); err != nil {
						t.Fatalf("%s store, values of %d bytes: removal of the middle key: %v", kind, L, err)
					}
					cold := mptkit.NewTrie(st.DB, int64(seed%4), mpt.GetRoot())
					for ki, key := range keys {
						got, err := cold.GetNodeValueRaw(util.Path(key))
						if ki == 1 {
							if err == nil {
								t.Fatalf("%s store, values of %d bytes: the removed middle key is still found", kind, L)
							}
							continue
						}
						want := bytes.Repeat([]byte{byte(L), byte(seed), 0x3a, byte(ki)}, L/4+1)[:L]
						if err != nil || !bytes.Equal(got, want) {
							t.Fatalf("%s store: %d-byte value under %q after the middle key was removed: a cold lookup returns %d bytes (%v)", kind, L, key, len(got), err)
						}
					}
				}
			}
			st.Close()
		}
	})
}

// hinted is a value whose type also reports a size estimate, as generated serializers do: an upper bound, not the
// encoded length.
type hinted struct{ b []byte }

func (h *hinted) MarshalMsg(o []byte) ([]byte, error) { return append(o, h.b...), nil }
func (h *hinted) UnmarshalMsg(b []byte) ([]byte, error) {
	h.b = append([]byte(nil), b...)
	return nil, nil
}
func (h *hinted) Msgsize() int { return len(h.b) + 9 }

// The size limit applies to what is stored (the encoding), whatever the value's own size estimate says.
func TestSizeLimitWithSizeEstimates(t *testing.T) {
	ev.Guard(t, "TestSizeLimitWithSizeEstimates", func() {
		seed := ev.SeedFor("TestSizeLimitWithSizeEstimates")
		st := mptkit.NewStore([]string{"memory", "pndb"}[seed%2])
		defer st.Close()
		mpt := mptkit.NewTrie(st.DB, int64(seed%3), nil)
		for i, short := range []int{0, 1, 5, 8, 9, 300} {
			key := fmt.Sprintf("ab%02x", i)
			val := bytes.Repeat([]byte{0x5a, byte(i), 0x3a}, util.MPTMaxAllowableNodeSize/3+1)[:util.MPTMaxAllowableNodeSize-short]
			if _, err := mpt.Insert(util.Path(key), &hinted{val}); err != nil {
				t.Fatalf("a value whose encoding has %d bytes (limit %d) and whose size estimate says %d was refused: %v", len(val), util.MPTMaxAllowableNodeSize, len(val)+9, err)
			}
			got, err := mpt.GetNodeValueRaw(util.Path(key))
			if err != nil || !bytes.Equal(got, val) {
				t.Fatalf("value of %d bytes under %q: lookup returns %d bytes (%v)", len(val), key, len(got), err)
			}
			if i < 2 {
				// sixteen longer keys below it: the big value now sits on a complete branch
				for n := 0; n < 16; n++ {
					if _, err := mpt.Insert(util.Path(fmt.Sprintf("%s%x7", key, n)), mptkit.Val([]byte{byte(n), 2})); err != nil {
						t.Fatalf("key below the big value: %v", err)
					}
				}
				for name, tr := range map[string]*util.MerklePatriciaTrie{"the writing trie": mpt, "a trie opened on the root": mptkit.NewTrie(st.DB, int64(seed%3), mpt.GetRoot())} {
					got, err := tr.GetNodeValueRaw(util.Path(key))
					if err != nil || !bytes.Equal(got, val) {
						t.Fatalf("value of %d bytes under %q with sixteen keys below it: lookup through %s returns %d bytes (%v)", len(val), key, name, len(got), err)
					}
				}
			}
			if _, err := mpt.Insert(util.Path(key), mptkit.Val([]byte{1})); err != nil {
				t.Fatalf("overwrite of the big value: %v", err)
			}
			ev.Case(fmt.Sprintf("hinted/%d", short), true, "size-limit-with-size-estimate")
		}
		before := append([]byte(nil), mpt.GetRoot()...)
		if _, err := mpt.Insert(util.Path("abff"), &hinted{make([]byte, util.MPTMaxAllowableNodeSize+1)}); err == nil {
			t.Fatalf("a value of limit+1 bytes was accepted")
		}
		if !bytes.Equal(before, mpt.GetRoot()) {
			t.Fatalf("a refused over-size value changed the root")
		}
	})
}

// Very long paths and very deep tries: 66..75 keys that are prefixes of one another, the longest of 132..150 hex
// characters (more than 128 node levels on one path), plus side keys that leave the long path at drawn places. Inserts,
// lookups (present and absent), full iteration and removals against the map model, on a memory and a persistent store.
func TestVeryLongAndDeep(t *testing.T) {
	ev.Rapid(t, 6, 60)
	rapid.Check(t, func(rt *rapid.T) {
		kind := gen.Pick(rt, []string{"memory", "pndb", "level-pndb"}, "store")
		st := mptkit.NewStore(kind)
		defer st.Close()
		mpt := mptkit.NewTrie(st.DB, int64(gen.Uniform(rt, 0, 2, "version")), nil)
		unit := gen.Pick(rt, []string{"5e", "00", "a1", "ff"}, "unit")
		n := gen.Uniform(rt, 66, 75, "nested")
		model := map[string][]byte{}
		var order []string
		for i := 1; i <= n; i++ {
			order = append(order, strings.Repeat(unit, i))
		}
		for i := gen.Uniform(rt, 0, 6, "nside"); i > 0; i-- {
			order = append(order, strings.Repeat(unit, gen.Uniform(rt, 1, n, "sideat"))+gen.Pick(rt, []string{"0b", "b0", "77"}, "sidetail"))
		}
		if gen.Chance(rt, 50, "longestfirst") {
			for i, j := 0, len(order)-1; i < j; i, j = i+1, j-1 {
				order[i], order[j] = order[j], order[i]
			}
		}
		check := func(when string) {
			for _, tr := range []*util.MerklePatriciaTrie{mpt, util.CloneMPT(mpt)} {
				for _, p := range order {
					got, err := tr.GetNodeValueRaw(util.Path(p))
					want, live := model[p]
					if live && (err != nil || !bytes.Equal(got, want)) {
						rt.Fatalf("%s (%s store): lookup of the %d-character path %q.. = %x, %v; want %x", when, kind, len(p), p[:4], got, err, want)
					}
					if !live && err == nil {
						rt.Fatalf("%s (%s store): lookup of the absent %d-character path returns %x", when, kind, len(p), got)
					}
				}
				content, err := mptkit.Content(tr)
				if err != nil || !mptkit.EqualContent(content, model) {
					rt.Fatalf("%s (%s store): a full iteration yields %d pairs (%v), %d are stored", when, kind, len(content), err, len(model))
				}
			}
		}
		for i, p := range order {
			v := []byte{byte(i), byte(len(p)), 0x3a}
			if _, err := mptkit.InsertReused(mpt, p, v); err != nil {
				rt.Fatalf("insert of a %d-character path: %v", len(p), err)
			}
			model[p] = v
		}
		check("after the inserts")
		for i := gen.Uniform(rt, 1, 12, "ndel"); i > 0; i-- {
			p := gen.Pick(rt, order, "del")
			_, err := mpt.Delete(util.Path(p))
			if _, live := model[p]; live && err != nil {
				rt.Fatalf("removal of a stored %d-character path: %v", len(p), err)
			}
			delete(model, p)
		}
		check("after some removals")
		ev.Case(fmt.Sprintf("deep/%s/%s/%d/%d", kind, unit, n, len(model)), true, "more-than-128-node-levels")
	})
}
