package c01

import (
	"bytes"
	"errors"
	"fmt"
	"testing"

	"github.com/0chain/common/core/util"

	"verif/harness/internal/ev"
	"verif/harness/internal/mptkit"
)

func ins(m *util.MerklePatriciaTrie, p string, v byte) {
	if _, err := m.Insert(util.Path(p), mptkit.Val([]byte{v})); err != nil {
		panic(err)
	}
}

// Minimal inputs of the defects this check found (KNOWN_FINDINGS.txt).
func TestWitnesses(t *testing.T) {
	ev.Witness(t, "C01-insert-on-one-element-extension", func() string {
		m := mptkit.NewTrie(util.NewMemoryNodeDB(), 0, nil)
		ins(m, "10", 1)
		ins(m, "11", 2)
		ins(m, "", 3)
		if v, err := m.GetNodeValueRaw(util.Path("10")); err != nil || !bytes.Equal(v, []byte{1}) {
			return fmt.Sprintf("ins 10, ins 11, ins \"\": lookup 10 = %x, %v", v, err)
		}
		return ""
	})
	ev.Witness(t, "C01-delete-absent-on-node-boundary", func() string {
		m := mptkit.NewTrie(util.NewMemoryNodeDB(), 0, nil)
		ins(m, "00", 1)
		if _, err := m.Delete(util.Path("")); !errors.Is(err, util.ErrValueNotPresent) {
			return fmt.Sprintf("ins 00, del \"\": %v", err)
		}
		ins(m, "01", 2) // root is now an extension "0"
		if _, err := m.Delete(util.Path("")); !errors.Is(err, util.ErrValueNotPresent) {
			return fmt.Sprintf("del \"\" on an extension root: %v", err)
		}
		if v, err := m.GetNodeValueRaw(util.Path("00")); err != nil || !bytes.Equal(v, []byte{1}) {
			return fmt.Sprintf("lookup 00 after deleting absent \"\" = %x, %v", v, err)
		}
		return ""
	})
	ev.Witness(t, "C02-value-removal-leaves-one-child-branch", func() string {
		m := mptkit.NewTrie(util.NewMemoryNodeDB(), 0, nil)
		ins(m, "ab", 1)
		ins(m, "abcd", 2)
		if _, err := m.Delete(util.Path("ab")); err != nil {
			return err.Error()
		}
		m2 := mptkit.NewTrie(util.NewMemoryNodeDB(), 0, nil)
		ins(m2, "abcd", 2)
		if !bytes.Equal(m.GetRoot(), m2.GetRoot()) {
			return "ins ab, ins abcd, del ab gives a different root than ins abcd"
		}
		if _, err := m.Delete(util.Path("abcd")); err != nil {
			return err.Error()
		}
		return ""
	})
}
