// evmerge merges the per-process stats files written by internal/ev into one
// evidence file (EVIDENCE.schema.json). Distinct non-trivial cases are counted
// as the size of the union of the per-process hash sets.
package main

import (
	"encoding/binary"
	"encoding/json"
	"flag"
	"fmt"
	"os"
	"sort"
)

type meta struct {
	Property    string   `json:"property_id"`
	Level       string   `json:"level"`
	Rule        string   `json:"rule"`
	Assumptions []string `json:"assumptions"`
	Exhaustive  bool     `json:"exhaustive,omitempty"`
}

type stats struct {
	Meta        meta             `json:"meta"`
	Evaluations int64            `json:"evaluations"`
	Classes     map[string]int64 `json:"classes"`
	Excluded    map[string]int64 `json:"excluded"`
	Samples     []any            `json:"samples"`
	Extra       map[string]any   `json:"extra"`
	WallS       float64          `json:"wall_s"`
}

func main() {
	out := flag.String("out", "", "evidence file")
	prop := flag.String("property", "", "property id")
	tier := flag.String("tier", "quick", "")
	seed := flag.Int64("seed", 1, "")
	wall := flag.Float64("wall", 0, "")
	viol := flag.Int("violations", 0, "")
	known := flag.Int("known", 0, "known findings reproduced")
	flag.Parse()

	union := map[uint64]struct{}{}
	var m meta
	var evals int64
	classes := map[string]int64{}
	excluded := map[string]int64{}
	extra := map[string]any{}
	var samples []any
	procs := 0
	for _, f := range flag.Args() {
		b, err := os.ReadFile(f)
		if err != nil {
			continue
		}
		var s stats
		if err := json.Unmarshal(b, &s); err != nil {
			fmt.Fprintln(os.Stderr, "evmerge: bad stats", f, err)
			continue
		}
		procs++
		if s.Meta.Property != "" {
			if m.Property == "" {
				m = s.Meta
			} else {
				// several binaries (plain + race) of one property: keep the first
				// description, add assumptions not yet listed.
				have := map[string]bool{}
				for _, a := range m.Assumptions {
					have[a] = true
				}
				for _, a := range s.Meta.Assumptions {
					if !have[a] {
						m.Assumptions = append(m.Assumptions, a)
					}
				}
				m.Exhaustive = m.Exhaustive && s.Meta.Exhaustive
			}
		}
		evals += s.Evaluations
		for k, v := range s.Classes {
			classes[k] += v
		}
		for k, v := range s.Excluded {
			excluded[k] += v
		}
		for k, v := range s.Extra {
			if fv, ok := v.(float64); ok {
				if cur, ok := extra[k].(float64); ok {
					extra[k] = cur + fv
					continue
				}
			}
			if _, ok := extra[k]; !ok {
				extra[k] = v
			}
		}
		if len(samples) < 8 {
			for _, x := range s.Samples {
				if len(samples) < 8 {
					samples = append(samples, x)
				}
			}
		}
		hb, err := os.ReadFile(f + ".hashes")
		if err == nil {
			for i := 0; i+8 <= len(hb); i += 8 {
				union[binary.LittleEndian.Uint64(hb[i:])] = struct{}{}
			}
		}
	}
	if m.Property == "" {
		m.Property = *prop
		m.Level = "exploration"
	}
	cov := map[string]any{
		"evaluations":         evals,
		"distinct_nontrivial": len(union),
		"rule":                m.Rule,
		"samples":             samples,
		"classes":             sorted(classes),
		"processes":           procs,
	}
	if len(excluded) > 0 {
		cov["excluded_by_known_finding"] = sorted(excluded)
	}
	if m.Exhaustive {
		cov["exhaustive"] = true
	}
	for k, v := range extra {
		if _, ok := cov[k]; !ok {
			cov[k] = v
		}
	}
	if *known > 0 {
		cov["known_findings_reproduced"] = *known
	}
	ev := map[string]any{
		"property_id": *prop,
		"tier":        *tier,
		"seed":        *seed,
		"level":       m.Level,
		"coverage":    cov,
		"assumptions": m.Assumptions,
		"wall_s":      *wall,
		"violations":  *viol,
	}
	if m.Assumptions == nil {
		ev["assumptions"] = []string{}
	}
	b, _ := json.MarshalIndent(ev, "", " ")
	if err := os.WriteFile(*out, append(b, '\n'), 0o644); err != nil {
		fmt.Fprintln(os.Stderr, "evmerge:", err)
		os.Exit(2)
	}
}

func sorted(m map[string]int64) map[string]int64 {
	// encoding/json sorts map keys; kept as a hook for stable output.
	keys := make([]string, 0, len(m))
	for k := range m {
		keys = append(keys, k)
	}
	sort.Strings(keys)
	out := make(map[string]int64, len(m))
	for _, k := range keys {
		out[k] = m[k]
	}
	return out
}
