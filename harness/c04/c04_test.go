// C04 — saved state is complete and survives crashes.
package c04

import (
	"bytes"
	"context"
	"encoding/json"
	"fmt"
	"github.com/0chain/common/core/util"
	"strings"
	"testing"
	"time"

	"github.com/0chain/common/core/statecache"
	"github.com/linxGnu/grocksdb"
	"pgregory.net/rapid"

	"verif/harness/internal/ev"
	"verif/harness/internal/gen"
	"verif/harness/internal/mptkit"
	"verif/harness/internal/refmpt"
	"verif/harness/internal/rounds"
)

func TestMain(m *testing.M) {
	ev.SetMeta(ev.Meta{
		Property: "C04", Level: "fault_enumeration",
		Rule: "rapid draws a multi-round history (1..6 rounds; per round 1..4 transaction tries with 1..6 operations each, merged in order or discarded, including identical re-creation of deleted content within and across rounds); each round is executed as the chain does (block trie over LevelNodeDB(memory, persistent store), SaveChanges without deletes, RecordDeadNodes). After every save every round saved so far is re-read from the store alone (new PNodeDB object, fresh trie and cache, plus the harness's raw-byte walker) and must equal its model. " +
			"Crash points are ENUMERATED: for each round and each prefix length n of the atomic writes its save stream issued, the round is re-run from a copy of the pre-round store with every write from the n-th on refused; after 'restart' all earlier roots must still be readable, and re-executing and re-saving the round must give the same root and complete content; additionally each single write is made to fail alone (process survives): a save that then reports success must have saved a complete state. " +
			"One evaluation = one crash-free history or one (history, round, prefix) crash run. Before every second save a cold reader (CloneMPT) iterates the block state. Dedicated cases: rounds of more than 256 changed nodes with every crash prefix, and rounds built to exactly 255, 256, 257 and 512 changed nodes. Non-trivial = history with >=2 rounds, a round with both a merged and a discarded transaction, and identical re-creation of deleted content; distinct = distinct (history, round, prefix).",
		Assumptions: []string{"the persistent store is the in-memory grocksdb stand-in: point writes and batch writes are atomic and totally ordered; a crash refuses the n-th and all later writes; SetSync(false) durability loss on machine crash is not modelled"},
	})
	ev.Main(m)
}

func describe(s *rounds.Script) string {
	b, _ := json.Marshal(s.Rounds)
	return string(b)
}

func TestSaveCompleteAndCrashSafe(t *testing.T) {
	ev.Rapid(t, 300, 4000)
	rapid.Check(t, func(rt *rapid.T) {
		s := rounds.Gen(rt, 6, false)
		dir := rounds.NewDir()
		defer mptkit.DropDir(dir)
		var saved []rounds.Saved
		var prevRoot []byte
		desc := describe(s)
		crashRuns := 0
		for i, rd := range s.Rounds {
			pre := rounds.NewDir()
			grocksdb.CloneStore(dir, pre)
			st := grocksdb.StoreFor(dir)
			st.ResetFaults()
			root, dead, err := rounds.ExecRound(dir, prevRoot, rd)
			if err != nil {
				rt.Fatalf("history %s: round %d: %v", desc, i, err)
			}
			W := st.Writes()
			saved = append(saved, rounds.Saved{Version: rd.Version, Root: root, Model: s.Models[i], Dead: dead})
			for _, sv := range saved {
				if err := rounds.CheckReadable(dir, sv); err != nil {
					rt.Fatalf("history %s: after saving round %d: %v", desc, i, err)
				}
			}
			// every crash prefix of this round's save stream
			for n := 0; n < W; n++ {
				cdir := rounds.NewDir()
				cs := grocksdb.CloneStore(pre, cdir)
				cs.SetCrashAfter(n)
				_, _, cerr := rounds.ExecRound(cdir, prevRoot, rd)
				if cerr != nil && strings.HasPrefix(cerr.Error(), "HARNESS") {
					rt.Fatalf("history %s: crash run round %d prefix %d: %v", desc, i, n, cerr)
				}
				cs.ResetFaults() // restart
				if cerr == nil {
					// the save claimed success although a write was refused: then the state must be complete
					if err := rounds.CheckReadable(cdir, saved[i]); err != nil {
						rt.Fatalf("history %s: round %d save returned nil with write %d refused, and the state is incomplete: %v", desc, i, n, err)
					}
				}
				for _, sv := range saved[:i] {
					if err := rounds.CheckReadable(cdir, sv); err != nil {
						rt.Fatalf("history %s: crash in round %d after %d writes damaged an earlier root: %v", desc, i, n, err)
					}
				}
				// a reader opened after the restart at the root the interrupted round was going to save: it may find nodes
				// missing now; it is kept and must read everything once the round has been executed and saved again
				reader := mptkit.NewTrie(mptkit.Reopen(cdir), rd.Version, root)
				_, _ = reader.HasMissingNodes(context.Background())
				for p := range s.Models[i] {
					_, _ = reader.GetNodeValueRaw(util.Path(p))
					break
				}
				root2, _, err := rounds.ExecRound(cdir, prevRoot, rd)
				if err != nil {
					rt.Fatalf("history %s: re-executing round %d after crash at %d: %v", desc, i, n, err)
				}
				if c, err := mptkit.Content(reader); err != nil || !mptkit.EqualContent(c, s.Models[i]) {
					rt.Fatalf("history %s: round %d crashed after %d writes, a reader was opened at its root, the round was executed and saved again: the same reader now reads %s (%v), saved content is %s", desc, i, n, mptkit.Show(c), err, mptkit.Show(s.Models[i]))
				}
				if !bytes.Equal(root2, root) {
					rt.Fatalf("history %s: round %d re-executed after crash at %d gives root %x, crash-free %x", desc, i, n, root2, root)
				}
				for _, sv := range saved {
					if err := rounds.CheckReadable(cdir, sv); err != nil {
						rt.Fatalf("history %s: after crash at %d in round %d and re-save: %v", desc, n, i, err)
					}
				}
				mptkit.DropDir(cdir)
				crashRuns++
				pos := []string{"crash-before-node-batch", "crash-between-batch-and-dead-record"}
				cl := "crash-late"
				if n < len(pos) {
					cl = pos[n]
				}
				ev.Case(fmt.Sprintf("%s|%d|%d", desc, i, n), len(s.Rounds) >= 2 && i >= 1, cl)
			}
			// a single failing write (the process survives): a save that reports success must have saved everything
			for n := 0; n < W; n++ {
				cdir := rounds.NewDir()
				cs := grocksdb.CloneStore(pre, cdir)
				cs.SetFailOnly(n)
				// the caller reaches its wait a moment after the saving goroutine was started (see rounds.SaveCtx)
				rounds.SaveCtx = func() context.Context {
					return rounds.SlowCtx{Context: context.Background(), Pause: 300 * time.Microsecond}
				}
				_, _, cerr := rounds.ExecRound(cdir, prevRoot, rd)
				rounds.SaveCtx = context.Background
				cs.ResetFaults()
				if cerr != nil && strings.HasPrefix(cerr.Error(), "HARNESS") {
					rt.Fatalf("history %s: fault run round %d write %d: %v", desc, i, n, cerr)
				}
				if cerr == nil {
					if err := rounds.CheckReadable(cdir, saved[i]); err != nil {
						rt.Fatalf("history %s: round %d: write %d failed but the save reported success, and the state is incomplete: %v", desc, i, n, err)
					}
				}
				for _, sv := range saved[:i] {
					if err := rounds.CheckReadable(cdir, sv); err != nil {
						rt.Fatalf("history %s: failed write %d in round %d damaged an earlier root: %v", desc, n, i, err)
					}
				}
				mptkit.DropDir(cdir)
				ev.Case(fmt.Sprintf("%s|%d|f%d", desc, i, n), len(s.Rounds) >= 2 && i >= 1, "single-write-failure")
			}
			mptkit.DropDir(pre)
			prevRoot = root
		}
		nt := len(s.Rounds) >= 2 && s.MergedAndDiscarded && s.Recreate
		cls := []string{fmt.Sprintf("rounds:%d", len(s.Rounds)), "crash-free-history"}
		if s.Recreate {
			cls = append(cls, "identical-recreate")
		}
		if s.MergedAndDiscarded {
			cls = append(cls, "merged-and-discarded-in-one-round")
		}
		ev.Case(desc, nt, cls...)
		if nt && ev.WantSample() {
			ev.Sample(map[string]any{"rounds": s.Rounds, "crash_runs": crashRuns})
		}
	})
}

// Chain mode: rounds are executed on top of the previous round's in-memory
// LevelNodeDB and finalised (saved, rebased) with a lag of 0..2 rounds.
func TestChainModeLaggedFinalize(t *testing.T) {
	ev.Rapid(t, 300, 4000)
	rapid.Check(t, func(rt *rapid.T) {
		s := rounds.Gen(rt, 6, false)
		lag := rapid.IntRange(0, 2).Draw(rt, "lag")
		dir := rounds.NewDir()
		defer mptkit.DropDir(dir)
		pndb := mptkit.Reopen(dir)
		sc := statecache.NewStateCache()
		desc := fmt.Sprintf("lag=%d %s", lag, describe(s))
		var live []*rounds.Block
		var saved []rounds.Saved
		finalized := 0
		finalize := func(upto int) {
			for finalized < upto {
				b := live[finalized]
				// every crash prefix of this finalisation, on copies of the store: earlier roots stay readable, and the
				// round re-executed from the store alone and re-saved is complete with the same root
				pre := rounds.NewDir()
				grocksdb.CloneStore(dir, pre)
				for n := 0; n < 2; n++ {
					cdir := rounds.NewDir()
					cs := grocksdb.CloneStore(pre, cdir)
					cs.SetCrashAfter(n)
					_, serr := rounds.Save(mptkit.Reopen(cdir), b)
					cs.ResetFaults()
					if serr == nil {
						rt.Fatalf("%s: finalisation of round %d reported success although write %d was refused", desc, finalized, n)
					}
					for _, sv := range saved {
						if err := rounds.CheckReadable(cdir, sv); err != nil {
							rt.Fatalf("%s: crash while finalising round %d after %d writes damaged an earlier root: %v", desc, finalized, n, err)
						}
					}
					var prevRoot []byte
					if finalized > 0 {
						prevRoot = saved[finalized-1].Root
					}
					root2, _, err := rounds.ExecRound(cdir, prevRoot, b.Rd)
					if err != nil || !bytes.Equal(root2, b.Trie.GetRoot()) {
						rt.Fatalf("%s: round %d re-executed from the store after a crash at write %d: root %x err %v, live root %x", desc, finalized, n, root2, err, b.Trie.GetRoot())
					}
					if err := rounds.CheckReadable(cdir, rounds.Saved{Version: b.Rd.Version, Root: root2, Model: s.Models[finalized]}); err != nil {
						rt.Fatalf("%s: round %d after crash at write %d, restart, re-execute and re-save: %v", desc, finalized, n, err)
					}
					mptkit.DropDir(cdir)
					ev.Case(fmt.Sprintf("%s|fin%d|%d", desc, finalized, n), len(s.Rounds) >= 2 && finalized >= 1, "chain-mode-crash-in-finalise")
				}
				mptkit.DropDir(pre)
				dead, err := rounds.Finalize(pndb, b)
				if err != nil {
					rt.Fatalf("%s: finalize round %d: %v", desc, finalized, err)
				}
				saved = append(saved, rounds.Saved{Version: b.Rd.Version, Root: append([]byte(nil), b.Trie.GetRoot()...), Model: s.Models[finalized], Dead: dead})
				finalized++
				for _, sv := range saved {
					if err := rounds.CheckReadable(dir, sv); err != nil {
						rt.Fatalf("%s: after finalizing round %d: %v", desc, finalized-1, err)
					}
				}
			}
		}
		var prev *rounds.Block
		for i, rd := range s.Rounds {
			b, err := rounds.ExecOnTop(sc, pndb, prev, rd)
			if err != nil {
				rt.Fatalf("%s: %v", desc, err)
			}
			live = append(live, b)
			prev = b
			// the live tip reads its model through the chain of stores
			got, err := mptkit.Content(mptkit.NewTrie(b.Trie.GetNodeDB(), rd.Version, b.Trie.GetRoot()))
			if err != nil || !mptkit.EqualContent(got, s.Models[i]) {
				rt.Fatalf("%s: live round %d reads %s (%v), want %s", desc, i, mptkit.Show(got), err, mptkit.Show(s.Models[i]))
			}
			finalize(i + 1 - lag)
		}
		finalize(len(s.Rounds))
		nt := len(s.Rounds) >= 2 && s.MergedAndDiscarded && s.Recreate
		ev.Case(desc, nt, "chain-mode", fmt.Sprintf("lag:%d", lag))
	})
}

// Large rounds (more than 256 changed nodes, the node store's batch size) with every crash prefix of their write stream.
func TestLargeRoundCrash(t *testing.T) {
	ev.Rapid(t, 2, 6)
	rapid.Check(t, func(rt *rapid.T) {
		n := gen.Uniform(rt, 400, 1200, "nkeys")
		key := func(i int) string { return fmt.Sprintf("%02x%02x%02x", (i*37)%256, (i*11)%256, i%251) }
		s := &rounds.Script{}
		model := map[string][]byte{}
		for r := 0; r < 2; r++ {
			var ops []mptkit.Op
			for i := r; i < n; i += 1 + r {
				v := []byte{byte(r + 1), byte(i), byte(i >> 8)}
				ops = append(ops, mptkit.Op{Kind: "ins", Path: key(i), Val: fmt.Sprintf("%x", v)})
				model[key(i)] = v
			}
			half := len(ops) / 2
			s.Rounds = append(s.Rounds, rounds.Round{Version: int64(r + 1), Txns: []rounds.Txn{{Ops: ops[:half], Merge: true}, {Ops: ops[half:], Merge: true}}})
			s.Models = append(s.Models, mptkit.CopyContent(model))
		}
		dir := rounds.NewDir()
		defer mptkit.DropDir(dir)
		var saved []rounds.Saved
		var prevRoot []byte
		desc := fmt.Sprintf("large history: %d keys, 2 rounds", n)
		for i, rd := range s.Rounds {
			pre := rounds.NewDir()
			grocksdb.CloneStore(dir, pre)
			st := grocksdb.StoreFor(dir)
			st.ResetFaults()
			root, dead, err := rounds.ExecRound(dir, prevRoot, rd)
			if err != nil {
				rt.Fatalf("%s: round %d: %v", desc, i, err)
			}
			W := st.Writes()
			saved = append(saved, rounds.Saved{Version: rd.Version, Root: root, Model: s.Models[i], Dead: dead})
			for _, sv := range saved {
				if err := rounds.CheckReadable(dir, sv); err != nil {
					rt.Fatalf("%s: after saving round %d: %v", desc, i, err)
				}
			}
			// the number of writes a crash run issues may differ from the crash-free run; enumerate until a run completes
			for nn := 0; nn < W+64; nn++ {
				cdir := rounds.NewDir()
				cs := grocksdb.CloneStore(pre, cdir)
				cs.SetCrashAfter(nn)
				_, _, cerr := rounds.ExecRound(cdir, prevRoot, rd)
				crashed := cs.Crashed()
				cs.ResetFaults()
				if cerr == nil && crashed {
					if err := rounds.CheckReadable(cdir, saved[i]); err != nil {
						rt.Fatalf("%s: round %d save returned nil although write %d was refused, and the state is incomplete: %v", desc, i, nn, err)
					}
				}
				for _, sv := range saved[:i] {
					if err := rounds.CheckReadable(cdir, sv); err != nil {
						rt.Fatalf("%s: crash in round %d after %d writes damaged an earlier root: %v", desc, i, nn, err)
					}
				}
				root2, _, err := rounds.ExecRound(cdir, prevRoot, rd)
				if err != nil || !bytes.Equal(root2, root) {
					rt.Fatalf("%s: re-executing round %d after crash at %d: root %x err %v, crash-free root %x", desc, i, nn, root2, err, root)
				}
				for _, sv := range saved {
					if err := rounds.CheckReadable(cdir, sv); err != nil {
						rt.Fatalf("%s: after crash at write %d in round %d, restart, re-execute and re-save: %v", desc, nn, i, err)
					}
				}
				mptkit.DropDir(cdir)
				ev.Case(fmt.Sprintf("%s|%d|%d", desc, i, nn), true, "large-round-crash-prefix")
				if !crashed {
					break // the injected point lies beyond the stream: all prefixes are covered
				}
			}
			mptkit.DropDir(pre)
			prevRoot = root
		}
		ev.Sample(map[string]any{"large_history_keys": n, "rounds": 2})
	})
}

// Rounds whose number of changed nodes is an exact multiple of the persistent store's batch size (256, 512): the
// keys are chosen with the reference trie builder until the node count of the round's content hits the target.
func TestRoundsOfExactlyBatchSizeMultiples(t *testing.T) {
	ev.Guard(t, "TestRoundsOfExactlyBatchSizeMultiples", func() {
		x := ev.SeedFor("TestRoundsOfExactlyBatchSizeMultiples")
		next := func() uint64 { x ^= x << 13; x ^= x >> 7; x ^= x << 17; return x }
		targets := []int{256, 512, 255, 257}
		if ev.Thorough() {
			targets = append(targets, 1000, 4096)
		}
		for _, target := range targets {
			content := map[string][]byte{}
			var ops []mptkit.Op
			nodes := 0
			for tries := 0; nodes != target && tries < 400000; tries++ {
				r := next()
				p := fmt.Sprintf("%06x", r&0xffffff)
				if _, dup := content[p]; dup {
					continue
				}
				v := []byte{byte(r >> 24), byte(r >> 32), 0x3a}
				content[p] = v
				if n := len(refmpt.Build(content, 1).Nodes); n <= target {
					nodes = n
					ops = append(ops, mptkit.Op{Kind: "ins", Path: p, Val: fmt.Sprintf("%x", v)})
				} else {
					delete(content, p)
				}
			}
			if nodes != target {
				t.Fatalf("HARNESS: could not build a content of exactly %d nodes (got %d)", target, nodes)
			}
			dir := rounds.NewDir()
			saved := -1
			rounds.OnBeforeSave = func(n int) { saved = n }
			root, _, err := rounds.ExecRound(dir, nil, rounds.Round{Version: 1, Txns: []rounds.Txn{{Ops: ops, Merge: true}}})
			rounds.OnBeforeSave = nil
			if err != nil {
				t.Fatalf("round of %d changed nodes: %v", target, err)
			}
			if err := rounds.CheckReadable(dir, rounds.Saved{Version: 1, Root: root, Model: content}); err != nil {
				t.Fatalf("a round that saves exactly %d changed nodes (%d keys; the trie reported %d changes) is not complete in the store: %v", target, len(content), saved, err)
			}
			// a second, small round on top must leave both readable
			ops2 := []mptkit.Op{{Kind: "ins", Path: "0a0b0c", Val: "01"}}
			content2 := mptkit.CopyContent(content)
			content2["0a0b0c"] = []byte{1}
			root2, _, err := rounds.ExecRound(dir, root, rounds.Round{Version: 2, Txns: []rounds.Txn{{Ops: ops2, Merge: true}}})
			if err != nil {
				t.Fatalf("round after the %d-node round: %v", target, err)
			}
			for _, sv := range []rounds.Saved{{Version: 1, Root: root, Model: content}, {Version: 2, Root: root2, Model: content2}} {
				if err := rounds.CheckReadable(dir, sv); err != nil {
					t.Fatalf("after the round following the %d-node round: %v", target, err)
				}
			}
			mptkit.DropDir(dir)
			cl := "round-of-exactly-k*256-or-1000-changed-nodes"
			if saved != target {
				cl = fmt.Sprintf("round-built-for-%d-nodes-saved-%d", target, saved)
			}
			ev.Case(fmt.Sprintf("exact/%d", target), (target%256 == 0 || target%1000 == 0) && saved == target, cl)
		}
	})
}

// Volume: a round that changes more than sixteen thousand nodes, and a round whose values add up to more than 64 MiB
// (eight values of 8.5 MiB), each followed by a small round; everything must read back from the store alone.
func TestRoundsOfGreatVolume(t *testing.T) {
	ev.Guard(t, "TestRoundsOfGreatVolume", func() {
		x := ev.SeedFor("TestRoundsOfGreatVolume") | 1
		next := func() uint64 { x ^= x << 13; x ^= x >> 7; x ^= x << 17; return x }
		for _, kind := range []string{"many-nodes", "many-bytes"} {
			content := map[string][]byte{}
			var ops []mptkit.Op
			if kind == "many-nodes" {
				for len(content) < 14000 {
					r := next()
					p := fmt.Sprintf("%08x", r&0xffffffff)
					if _, dup := content[p]; dup {
						continue
					}
					v := []byte{byte(r >> 32), byte(r >> 40), 0x3a, byte(r >> 48)}
					content[p] = v
					ops = append(ops, mptkit.Op{Kind: "ins", Path: p, Val: fmt.Sprintf("%x", v)})
				}
			} else {
				for i := 0; i < 8; i++ {
					p := fmt.Sprintf("%02x%02x", next()&0xff, i)
					v := bytes.Repeat([]byte{byte(i + 1), 0x3a, byte(next())}, 8912896/3+1)[:8912896]
					content[p] = v
					ops = append(ops, mptkit.Op{Kind: "ins", Path: p, Val: fmt.Sprintf("%x", v)})
				}
			}
			dir := rounds.NewDir()
			saved := -1
			rounds.OnBeforeSave = func(n int) { saved = n }
			root, _, err := rounds.ExecRound(dir, nil, rounds.Round{Version: 1, Txns: []rounds.Txn{{Ops: ops, Merge: true}}})
			rounds.OnBeforeSave = nil
			if err != nil {
				t.Fatalf("%s round: %v", kind, err)
			}
			if err := rounds.CheckReadable(dir, rounds.Saved{Version: 1, Root: root, Model: content}); err != nil {
				t.Fatalf("a round of great volume (%s: %d keys, %d changed nodes) is not complete in the store: %v", kind, len(content), saved, err)
			}
			content2 := mptkit.CopyContent(content)
			content2["0a0b0c0d"] = []byte{1}
			root2, _, err := rounds.ExecRound(dir, root, rounds.Round{Version: 2, Txns: []rounds.Txn{{Ops: []mptkit.Op{{Kind: "ins", Path: "0a0b0c0d", Val: "01"}}, Merge: true}}})
			if err != nil {
				t.Fatalf("round after the %s round: %v", kind, err)
			}
			for _, sv := range []rounds.Saved{{Version: 1, Root: root, Model: content}, {Version: 2, Root: root2, Model: content2}} {
				if err := rounds.CheckReadable(dir, sv); err != nil {
					t.Fatalf("after the round following the %s round: %v", kind, err)
				}
			}
			mptkit.DropDir(dir)
			ev.Case("volume/"+kind, true, "round-of-great-volume:"+kind)
			ev.Extra("changed_nodes_"+kind, saved)
		}
	})
}
