package c04

import (
	"context"
	"fmt"
	"testing"
	"time"

	"github.com/0chain/common/core/util"

	"github.com/linxGnu/grocksdb"

	"verif/harness/internal/ev"
	"verif/harness/internal/mptkit"
	"verif/harness/internal/rounds"
)

func TestWitnesses(t *testing.T) {
	ev.Witness(t, "C04-savechanges-drops-error", func() string {
		// The failure needs the saving goroutine to report its error and finish before the caller reaches its
		// select. The caller's select evaluates ctx.Done() first, so a context whose Done() takes a few milliseconds
		// stands for a caller that was descheduled at that point: both channels are then ready and select picks one
		// at random.
		for i := 0; i < 40; i++ {
			mpt := mptkit.NewTrie(util.NewMemoryNodeDB(), 1, nil)
			if _, err := mpt.Insert(util.Path("00"), mptkit.Val([]byte{1})); err != nil {
				return "HARNESS: " + err.Error()
			}
			pndb, dir := mptkit.NewPNodeDB()
			st := grocksdb.StoreFor(dir)
			st.SetFailOnly(0) // the node batch fails
			err := mpt.SaveChanges(slowCtx{context.Background()}, pndb, false)
			st.ResetFaults()
			bad := ""
			if err == nil {
				if e := rounds.CheckReadable(dir, rounds.Saved{Version: 1, Root: mpt.GetRoot(), Model: map[string][]byte{"00": {1}}}); e != nil {
					bad = fmt.Sprintf("attempt %d: the node batch write failed, SaveChanges returned nil, and the saved root is unreadable (%v)", i, e)
				}
			}
			mptkit.DropDir(dir)
			if bad != "" {
				return bad
			}
		}
		return ""
	})
}

// slowCtx is a context whose Done() returns after a short pause.
type slowCtx struct{ context.Context }

func (c slowCtx) Done() <-chan struct{} {
	time.Sleep(3 * time.Millisecond)
	return c.Context.Done()
}
