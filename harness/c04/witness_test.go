package c04

import (
	"fmt"
	"testing"

	"github.com/linxGnu/grocksdb"

	"verif/harness/internal/ev"
	"verif/harness/internal/mptkit"
	"verif/harness/internal/rounds"
)

func TestWitnesses(t *testing.T) {
	ev.Witness(t, "C04-savechanges-drops-error", func() string {
		rd := rounds.Round{Version: 1, Txns: []rounds.Txn{{Ops: []mptkit.Op{{Kind: "ins", Path: "00", Val: "01"}}, Merge: true}}}
		for i := 0; i < 40; i++ {
			dir := rounds.NewDir()
			st := grocksdb.StoreFor(dir)
			st.SetFailOnly(0) // the node batch fails, the dead-node record succeeds
			root, _, err := rounds.ExecRound(dir, nil, rd)
			st.ResetFaults()
			bad := ""
			if err == nil {
				if e := rounds.CheckReadable(dir, rounds.Saved{Version: 1, Root: root, Model: map[string][]byte{"00": {1}}}); e != nil {
					bad = fmt.Sprintf("attempt %d: the node batch write failed, SaveChanges returned nil, and the saved root is unreadable (%v)", i, e)
				}
			}
			mptkit.DropDir(dir)
			if bad != "" {
				return bad
			}
		}
		return ""
	})
}
