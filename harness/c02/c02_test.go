// C02 — the state root is a canonical, format-stable commitment to content.
package c02

import (
	"bytes"
	"encoding/hex"
	"fmt"
	"sort"
	"strings"
	"testing"

	"github.com/0chain/common/core/util"
	"pgregory.net/rapid"

	"verif/harness/internal/ev"
	"verif/harness/internal/gen"
	"verif/harness/internal/mptkit"
	"verif/harness/internal/refmpt"
)

func TestMain(m *testing.M) {
	ev.SetMeta(ev.Meta{
		Property: "C02", Level: "exploration",
		Rule: "rapid draws a target content (0..12 pairs over prefix-sharing paths) and a fixed version, then builds it by 2..3 independently drawn histories (random inserts/overwrites/deletes over target and decoy keys, followed by a fix-up phase in a drawn order). Each resulting root must equal the root computed by internal/refmpt (independent canonical builder + hasher), be nil for empty content, and every node reachable in the store, parsed by the reference parser, must hash to its key and have canonical shape. " +
			"Injectivity: a content changed by one edit (pair changed/added/removed, value moved between a path and its prefix, values permuted over paths) must get a different root, plus constructed type-confusion pairs. " +
			"Non-trivial = target has >=3 pairs with a prefix pair or a shared >=2-nibble prefix, and at least one history contains a delete that reduced the number of reachable nodes by more than one (a restructuring delete); distinct = distinct (content, histories).",
		Assumptions: []string{"sha3-256 collision resistance (distinct reference roots for distinct canonical tries)", "internal/refmpt is written from the documented byte layout only"},
	})
	ev.Main(m)
}

type hop struct {
	Kind string `json:"k"`
	Path string `json:"p"`
	Val  string `json:"v,omitempty"`
}

func showHist(h []hop) string {
	var s []string
	for _, o := range h {
		if o.Kind == "ins" {
			s = append(s, fmt.Sprintf("ins(%q,%s)", o.Path, o.Val))
		} else {
			s = append(s, fmt.Sprintf("del(%q)", o.Path))
		}
	}
	return strings.Join(s, "; ")
}

// genHistory draws a history that ends in target.
func genHistory(rt *rapid.T, target map[string][]byte, decoys []string, label string) []hop {
	keys := append(mptkit.SortedKeys(target), decoys...)
	state := map[string][]byte{}
	var h []hop
	n := 0
	if len(keys) > 0 {
		n = gen.Uniform(rt, 0, 3*len(keys), label+"_n")
	}
	for i := 0; i < n; i++ {
		k := gen.Pick(rt, keys, label+"_key")
		if gen.Chance(rt, 35, label+"_del") {
			if _, ok := state[k]; ok {
				h = append(h, hop{Kind: "del", Path: k})
				delete(state, k)
				continue
			}
		}
		var v []byte
		if tv, ok := target[k]; ok && rapid.Bool().Draw(rt, label+"_tv") {
			v = tv
		} else if ok && len(tv) > 0 && gen.Chance(rt, 30, label+"_like") {
			// a value that is easy to mistake for the one the key ends with (same length; other letter case, one end
			// byte different, or the same CRC-32): the final write must still replace it
			v = mptkit.Lookalike(rt, tv, label+"_lk")
		} else {
			v = mptkit.GenValue(rt, label+"_v")
		}
		h = append(h, hop{Kind: "ins", Path: k, Val: hex.EncodeToString(v)})
		state[k] = v
	}
	// fix-up in a drawn order
	var todo []string
	for _, k := range keys {
		tv, want := target[k]
		sv, have := state[k]
		if want != have || (want && !bytes.Equal(tv, sv)) {
			todo = append(todo, k)
		}
	}
	if len(todo) > 1 {
		todo = rapid.Permutation(todo).Draw(rt, label+"_fix")
	}
	for _, k := range todo {
		if tv, want := target[k]; want {
			h = append(h, hop{Kind: "ins", Path: k, Val: hex.EncodeToString(tv)})
		} else {
			h = append(h, hop{Kind: "del", Path: k})
		}
	}
	return h
}

type buildResult struct {
	root        []byte
	restructure bool
	walk        *refmpt.Walk
}

// apply runs a history on a fresh trie and returns the root; it also notes whether a delete restructured.
func apply(rt *rapid.T, kind string, version int64, h []hop) buildResult {
	st := mptkit.NewStore(kind)
	defer st.Close()
	mpt := mptkit.NewTrie(st.DB, version, nil)
	var res buildResult
	for i, o := range h {
		var before int
		if o.Kind == "del" {
			before = len(refmpt.WalkFrom(mpt.GetRoot(), mptkit.GetterOf(st.DB), false).Reachable)
		}
		var err error
		if o.Kind == "ins" {
			v, _ := hex.DecodeString(o.Val)
			_, err = mptkit.InsertReused(mpt, o.Path, v)
		} else if i%3 == 1 {
			// a removal may also be spelled as storing an empty (non-nil) value
			_, err = mpt.Insert(util.Path(o.Path), mptkit.Val([]byte{}))
		} else {
			_, err = mpt.Delete(util.Path(o.Path))
		}
		if err != nil {
			rt.Fatalf("step %d %v of history [%s]: %v", i, o, showHist(h), err)
		}
		if o.Kind == "del" {
			after := len(refmpt.WalkFrom(mpt.GetRoot(), mptkit.GetterOf(st.DB), false).Reachable)
			if before-after > 1 {
				res.restructure = true
			}
		}
	}
	res.root = append([]byte(nil), mpt.GetRoot()...)
	res.walk = refmpt.WalkFrom(res.root, mptkit.GetterOf(st.DB), true)
	return res
}

func genContent(rt *rapid.T, maxPairs int) (map[string][]byte, []string) {
	n := gen.Uniform(rt, 0, maxPairs, "npairs")
	maxBytes := rapid.SampledFrom([]int{2, 3, 4}).Draw(rt, "maxBytes")
	longPaths := gen.Chance(rt, 15, "longpaths")
	genP := func(used []string, label string) string {
		if longPaths {
			return mptkit.GenLongPath(rt, used, label)
		}
		return mptkit.GenPath(rt, used, maxBytes, label)
	}
	target := map[string][]byte{}
	var used []string
	for i := 0; i < 3*n && len(target) < n; i++ {
		p := genP(used, "tp")
		if _, dup := target[p]; dup {
			continue
		}
		used = append(used, p)
		target[p] = mptkit.GenValue(rt, "tv")
	}
	nd := gen.Uniform(rt, 0, 4, "ndecoys")
	var decoys []string
	for i := 0; i < nd; i++ {
		p := genP(used, "dp")
		if _, ok := target[p]; !ok {
			dup := false
			for _, d := range decoys {
				dup = dup || d == p
			}
			if !dup {
				decoys = append(decoys, p)
			}
		}
		used = append(used, p)
	}
	return target, decoys
}

func interesting(target map[string][]byte) bool {
	ks := mptkit.SortedKeys(target)
	if len(ks) < 3 {
		return false
	}
	for i, a := range ks {
		for _, b := range ks[i+1:] {
			if strings.HasPrefix(b, a) {
				return true
			}
			if len(a) >= 2 && len(b) >= 2 && a[:2] == b[:2] {
				return true
			}
		}
	}
	return false
}

func TestCanonicalRoot(t *testing.T) {
	ev.Rapid(t, 2500, 25000)
	rapid.Check(t, func(rt *rapid.T) {
		target, decoys := genContent(rt, 12)
		version := int64(rapid.SampledFrom([]int{0, 0, 1, 7, 1 << 40}).Draw(rt, "version"))
		kind := rapid.SampledFrom([]string{"memory", "memory", "level-mem", "pndb"}).Draw(rt, "store")
		k := rapid.IntRange(2, 3).Draw(rt, "k")
		want := refmpt.Root(target, version)
		restructured := false
		var hs [][]hop
		kinds := map[byte]int{}
		for i := 0; i < k; i++ {
			h := genHistory(rt, target, decoys, fmt.Sprintf("h%d", i))
			hs = append(hs, h)
			res := apply(rt, kind, version, h)
			restructured = restructured || res.restructure
			if len(res.walk.Problems) > 0 || len(res.walk.Missing) > 0 {
				rt.Fatalf("store after history [%s] (version %d): problems %v missing %d", showHist(h), version, res.walk.Problems, len(res.walk.Missing))
			}
			if !mptkit.EqualContent(res.walk.Content, target) {
				rt.Fatalf("history [%s] ends in %s, want %s", showHist(h), mptkit.Show(res.walk.Content), mptkit.Show(target))
			}
			if !bytes.Equal(res.root, want) {
				rt.Fatalf("root after history [%s] (version %d, content %s) = %x, reference %x", showHist(h), version, mptkit.Show(target), res.root, want)
			}
			if len(target) == 0 && res.root != nil && len(res.root) != 0 {
				rt.Fatalf("empty content, root %x", res.root)
			}
			for ty, n := range res.walk.Kinds {
				kinds[ty] += n
			}
		}
		nt := interesting(target) && restructured
		cls := []string{fmt.Sprintf("pairs:%d", len(target)/4*4), "store:" + kind}
		if version > 0 {
			cls = append(cls, "version>0")
		}
		if restructured {
			cls = append(cls, "restructuring-delete")
		}
		if kinds[refmpt.TExt] > 0 {
			cls = append(cls, "has-extension")
		}
		ev.Case(fmt.Sprintf("%v|%s|%v", version, mptkit.Show(target), hs), nt, cls...)
		if nt && ev.WantSample() {
			ev.Sample(map[string]any{"content": mptkit.Show(target), "version": version, "histories": hs, "root": hex.EncodeToString(want)})
		}
	})
}

// buildRoot inserts content in sorted order into a fresh memory trie.
func buildRoot(t interface{ Fatalf(string, ...any) }, content map[string][]byte, version int64) []byte {
	mpt := mptkit.NewTrie(util.NewMemoryNodeDB(), version, nil)
	for _, k := range mptkit.SortedKeys(content) {
		if _, err := mpt.Insert(util.Path(k), mptkit.Val(content[k])); err != nil {
			t.Fatalf("insert %q: %v", k, err)
		}
	}
	return append([]byte(nil), mpt.GetRoot()...)
}

// Injectivity over one-edit neighbours.
func TestInjective(t *testing.T) {
	ev.Rapid(t, 1500, 15000)
	rapid.Check(t, func(rt *rapid.T) {
		a, _ := genContent(rt, 8)
		b := map[string][]byte{}
		for k, v := range a {
			b[k] = v
		}
		keys := mptkit.SortedKeys(a)
		edit := rapid.IntRange(0, 4).Draw(rt, "edit")
		name := ""
		switch {
		case edit == 0 || len(keys) == 0: // add a pair
			p := mptkit.GenPath(rt, keys, 3, "np")
			if _, ok := a[p]; ok {
				b[p] = append(append([]byte{}, a[p]...), 1)
			} else {
				b[p] = mptkit.GenValue(rt, "nv")
			}
			name = "add-or-change"
		case edit == 1: // remove a pair
			delete(b, rapid.SampledFrom(keys).Draw(rt, "rk"))
			name = "remove"
		case edit == 2: // change a value
			k := rapid.SampledFrom(keys).Draw(rt, "ck")
			b[k] = append(append([]byte{}, a[k]...), ':')
			name = "change-value"
		case edit == 3: // move a value to a prefix / extension of its path
			k := rapid.SampledFrom(keys).Draw(rt, "mk")
			var nk string
			if len(k) >= 2 && rapid.Bool().Draw(rt, "up") {
				nk = k[:len(k)-2]
			} else {
				nk = k + "00"
			}
			if _, ok := a[nk]; ok {
				rt.Skip("target path occupied")
			}
			b[nk] = a[k]
			delete(b, k)
			name = "move-to-prefix"
		default: // permute values over paths
			if len(keys) < 2 {
				rt.Skip("need two keys")
			}
			i := rapid.IntRange(0, len(keys)-2).Draw(rt, "pi")
			if bytes.Equal(a[keys[i]], a[keys[i+1]]) {
				rt.Skip("equal values")
			}
			b[keys[i]], b[keys[i+1]] = a[keys[i+1]], a[keys[i]]
			name = "swap-values"
		}
		if mptkit.EqualContent(a, b) {
			rt.Skip("no change")
		}
		v := int64(rapid.IntRange(0, 2).Draw(rt, "version"))
		ra, rb := buildRoot(rt, a, v), buildRoot(rt, b, v)
		if bytes.Equal(ra, rb) {
			rt.Fatalf("contents %s and %s share root %x", mptkit.Show(a), mptkit.Show(b), ra)
		}
		ev.Case(mptkit.Show(a)+"|"+mptkit.Show(b), len(a) >= 2, "edit:"+name)
	})
}

// Constructed type-confusion pairs: the node hash does not cover the node type,
// so bodies of different node kinds can coincide.
//
//	A = two keys under different first nibbles (root is a value-less branch whose
//	    first two child slots are empty), B = { "" -> branch body without its leading "::" }.
func confusionPair(k1, k2 string, v1, v2 []byte, version int64) (map[string][]byte, map[string][]byte) {
	a := map[string][]byte{k1: v1, k2: v2}
	built := refmpt.Build(a, version)
	root := built.Nodes[string(built.Root)]
	var body bytes.Buffer
	for i := 2; i < 16; i++ {
		if root.Children[i] != nil {
			body.WriteString(hex.EncodeToString(root.Children[i]))
		}
		body.WriteByte(':')
	}
	return a, map[string][]byte{"": body.Bytes()}
}

func TestTypeConfusion(t *testing.T) {
	const id = "C02-node-type-not-hashed"
	ev.Witness(t, id, func() string {
		a, b := confusionPair("a0", "f0", []byte{1}, []byte{2}, 0)
		ra, rb := buildRoot(t, a, 0), buildRoot(t, b, 0)
		if bytes.Equal(ra, rb) {
			return fmt.Sprintf("different contents %s and %s have the same root %x (a branch body and a leaf body coincide; the node type is not part of the hash)", mptkit.Show(a), mptkit.Show(b), ra)
		}
		return ""
	})
	if ev.Known(id) {
		ev.Excluded(id + ": constructed branch-body/leaf-body collisions are not drawn")
		return
	}
	ev.Rapid(t, 200, 2000)
	rapid.Check(t, func(rt *rapid.T) {
		first := "23456789abcdef"
		i := rapid.IntRange(0, len(first)-2).Draw(rt, "i")
		j := rapid.IntRange(i+1, len(first)-1).Draw(rt, "j")
		k1 := string(first[i]) + "0" + mptkit.GenFixedPath(rt, rapid.IntRange(0, 2).Draw(rt, "n1"), "k1")
		k2 := string(first[j]) + "0" + mptkit.GenFixedPath(rt, rapid.IntRange(0, 2).Draw(rt, "n2"), "k2")
		v := int64(rapid.IntRange(0, 3).Draw(rt, "version"))
		a, b := confusionPair(k1, k2, mptkit.GenValue(rt, "v1"), mptkit.GenValue(rt, "v2"), v)
		ra, rb := buildRoot(rt, a, v), buildRoot(rt, b, v)
		if bytes.Equal(ra, rb) {
			rt.Fatalf("different contents %s and %s have the same root %x", mptkit.Show(a), mptkit.Show(b), ra)
		}
		ev.Case(mptkit.Show(a), true, "edit:type-confusion")
	})
}

var _ = sort.Strings

// Values at the size limit: a value of exactly the largest accepted size (and a few bytes below) is stored, the
// trie is restructured around it (a sibling splits its leaf, the sibling goes again, an interior value comes and goes),
// and after every step the root equals the reference root of the content and the value reads back complete, also from
// a fresh trie on the same store.
func TestValuesAtTheSizeLimit(t *testing.T) {
	ev.Guard(t, "TestValuesAtTheSizeLimit", func() {
		seed := ev.SeedFor("TestValuesAtTheSizeLimit")
		for ci, short := range []int{0, 1, 7 + int(seed%13), 64} {
			kind := []string{"memory", "level-mem", "pndb", "level-pndb"}[(uint64(ci)+seed)%4]
			st := mptkit.NewStore(kind)
			version := int64(seed % 3)
			mpt := mptkit.NewTrie(st.DB, version, nil)
			big := bytes.Repeat([]byte{0x3a, 0x00, 0x5a, byte(ci)}, util.MPTMaxAllowableNodeSize/4+1)[:util.MPTMaxAllowableNodeSize-short]
			big[len(big)-1] = 0x77 // the last byte matters
			content := map[string][]byte{}
			step := func(what, path string, val []byte) {
				var err error
				if val == nil {
					_, err = mpt.Delete(util.Path(path))
					delete(content, path)
				} else {
					_, err = mpt.Insert(util.Path(path), mptkit.Val(val))
					content[path] = val
				}
				if err != nil {
					t.Fatalf("%s store, value of %d bytes: %s: %v", kind, len(big), what, err)
				}
				if want := refmpt.Root(content, version); !bytes.Equal(mpt.GetRoot(), want) {
					t.Fatalf("%s store, value of %d bytes: after %s the root is %x, reference %x", kind, len(big), what, mpt.GetRoot(), want)
				}
				for _, tr := range []*util.MerklePatriciaTrie{mpt, mptkit.NewTrie(st.DB, version, mpt.GetRoot())} {
					for p, want := range content {
						got, err := tr.GetNodeValueRaw(util.Path(p))
						if err != nil || !bytes.Equal(got, want) {
							t.Fatalf("%s store, value of %d bytes: after %s lookup %q returns %d bytes (%v), stored %d", kind, len(big), what, p, len(got), err, len(want))
						}
					}
				}
			}
			step("insert of the big value", "12ab34", big)
			step("insert of a sibling that splits its leaf", "12ab56", []byte{1})
			{
				// a child state (a level above this store, its own cold cache) removes the sibling, which lifts the big leaf
				// there; the state below is not the child's to change: it still reads the same and re-computes to its root
				parentRoot := append([]byte(nil), mpt.GetRoot()...)
				child := mptkit.NewTrie(util.NewLevelNodeDB(util.NewMemoryNodeDB(), st.DB, false), version+int64(ci%2), parentRoot)
				if _, err := child.Delete(util.Path("12ab56")); err != nil {
					t.Fatalf("%s store, value of %d bytes: removal of the sibling in a child state: %v", kind, len(big), err)
				}
				if got, err := child.GetNodeValueRaw(util.Path("12ab34")); err != nil || !bytes.Equal(got, big) {
					t.Fatalf("%s store, value of %d bytes: the child state reads %d bytes (%v) after lifting the big leaf", kind, len(big), len(got), err)
				}
				w := refmpt.WalkFrom(parentRoot, mptkit.GetterOf(st.DB), false)
				if len(w.Problems) > 0 || len(w.Missing) > 0 || !mptkit.EqualContent(w.Content, content) {
					t.Fatalf("%s store, value of %d bytes: after a child state lifted the big leaf, the state below it has problems %v, %d missing nodes, %d of %d pairs", kind, len(big), w.Problems, len(w.Missing), len(w.Content), len(content))
				}
			}
			step("insert of an interior value", "12ab", []byte{2})
			step("removal of the interior value", "12ab", nil)
			step("removal of the sibling", "12ab56", nil)
			step("insert of a key below the big value's path", "12ab3478", []byte{3})
			// the big value on a branch with all sixteen children (the largest encoding a value of this size can be part of)
			const hexd = "0123456789abcdef"
			for n := 0; n < 16; n++ {
				path := "12ab34" + string(hexd[n]) + "8"
				if n < 15 {
					if _, err := mpt.Insert(util.Path(path), mptkit.Val([]byte{4, byte(n)})); err != nil {
						t.Fatalf("%s store, value of %d bytes: child %d below the big value: %v", kind, len(big), n, err)
					}
					content[path] = []byte{4, byte(n)}
					continue
				}
				step("insert of the sixteenth key below the big value's path", path, []byte{4, byte(n)})
			}
			step("update of a key below the complete branch that holds the big value", "12ab3408", []byte{5})
			step("removal of the big value", "12ab34", nil)
			st.Close()
			ev.Case(fmt.Sprintf("size-limit/%s/%d", kind, len(big)), true, "value-at-the-size-limit")
		}
	})
}

// The package's switch "for detailed debugging" only adds log output: with it on, histories end in the same roots.
func TestWithTheDebugSwitchOn(t *testing.T) {
	ev.Rapid(t, 150, 2000)
	util.DebugMPTNode = true
	defer func() { util.DebugMPTNode = false }()
	rapid.Check(t, func(rt *rapid.T) {
		target, decoys := genContent(rt, 8)
		version := int64(rapid.SampledFrom([]int{0, 1, 7, 1 << 40}).Draw(rt, "version"))
		kind := rapid.SampledFrom([]string{"memory", "level-mem", "pndb"}).Draw(rt, "store")
		h := genHistory(rt, target, decoys, "h")
		res := apply(rt, kind, version, h)
		if len(res.walk.Problems) > 0 || len(res.walk.Missing) > 0 || !mptkit.EqualContent(res.walk.Content, target) {
			rt.Fatalf("debug switch on: store after history [%s] (version %d): problems %v missing %d content %s", showHist(h), version, res.walk.Problems, len(res.walk.Missing), mptkit.Show(res.walk.Content))
		}
		if want := refmpt.Root(target, version); !bytes.Equal(res.root, want) {
			rt.Fatalf("debug switch on: root after history [%s] (version %d, content %s) = %x, reference %x", showHist(h), version, mptkit.Show(target), res.root, want)
		}
		ev.Case(fmt.Sprintf("debug|%v|%s|%v", version, mptkit.Show(target), h), version > 0 && interesting(target), "debug-switch-on")
	})
}

// Value lengths: a one-key trie's root against the reference for every value length up to three times 8704 bytes.
func TestRootOverValueLengths(t *testing.T) {
	ev.Guard(t, "TestRootOverValueLengths", func() {
		seed := ev.SeedFor("TestRootOverValueLengths")
		version := int64(seed % 3)
		key := []string{"aabbccdd", "12", "0123456789abcdef0123456789abcdef"}[seed%3]
		for L := 1; L <= 26200; L++ {
			val := bytes.Repeat([]byte{byte(L), 0x3a, byte(seed), byte(L >> 8)}, L/4+1)[:L]
			content := map[string][]byte{key: val}
			if got, want := buildRoot(t, content, version), refmpt.Root(content, version); !bytes.Equal(got, want) {
				t.Fatalf("key %q with a value of %d bytes (version %d): root %x, reference %x", key, L, version, got, want)
			}
		}
		// around larger powers of two: the same content reached through a detour (a key below the big value's key comes
		// and goes) has the same root
		for _, c := range []int{16384, 32768, 65536} {
			for L := c - 70; L <= c+2; L++ {
				val := bytes.Repeat([]byte{byte(L), 0x3a, byte(seed), byte(L >> 8)}, L/4+1)[:L]
				content := map[string][]byte{key: val}
				want := refmpt.Root(content, version)
				mpt := mptkit.NewTrie(util.NewMemoryNodeDB(), version, nil)
				detour := key + "77"
				if L%2 == 0 {
					// a sibling instead: the big value then sits on a leaf below a branch, which is lifted when the sibling goes
					last := key[len(key)-1]
					detour = key[:len(key)-1] + string("0123456789abcdef"[(strings.IndexByte("0123456789abcdef", last)+5)%16])
				}
				for _, step := range []struct {
					p string
					v []byte
				}{{detour, []byte{1}}, {key, val}, {detour, nil}} {
					var err error
					if step.v == nil {
						_, err = mpt.Delete(util.Path(step.p))
					} else {
						_, err = mpt.Insert(util.Path(step.p), mptkit.Val(step.v))
					}
					if err != nil {
						t.Fatalf("detour history with a value of %d bytes: %v", L, err)
					}
				}
				if !bytes.Equal(mpt.GetRoot(), want) {
					t.Fatalf("key %q with a value of %d bytes reached through insert(%q), insert(%q), delete(%q): root %x, reference %x", key, L, detour, key, detour, mpt.GetRoot(), want)
				}
			}
		}
		ev.Case(fmt.Sprintf("root-over-lengths/%s/%d", key, version), true, "value-length-sweep-1..26200")
	})
}
