package c02

import (
	"bytes"
	"testing"

	"github.com/0chain/common/core/util"

	"verif/harness/internal/ev"
	"verif/harness/internal/mptkit"
	"verif/harness/internal/refmpt"
)

func TestWitnesses(t *testing.T) {
	ev.Witness(t, "C02-value-removal-leaves-one-child-branch", func() string {
		m := mptkit.NewTrie(util.NewMemoryNodeDB(), 0, nil)
		for _, p := range []string{"ab", "abcd"} {
			if _, err := m.Insert(util.Path(p), mptkit.Val([]byte{1})); err != nil {
				return err.Error()
			}
		}
		if _, err := m.Delete(util.Path("ab")); err != nil {
			return err.Error()
		}
		if want := refmpt.Root(map[string][]byte{"abcd": {1}}, 0); !bytes.Equal(m.GetRoot(), want) {
			return "ins ab, ins abcd, del ab: root differs from the canonical root of {abcd}"
		}
		return ""
	})
	ev.Witness(t, "C01-insert-on-one-element-extension", func() string {
		m := mptkit.NewTrie(util.NewMemoryNodeDB(), 0, nil)
		c := map[string][]byte{"10": {1}, "11": {2}, "": {3}}
		for _, p := range []string{"10", "11", ""} {
			if _, err := m.Insert(util.Path(p), mptkit.Val(c[p])); err != nil {
				return err.Error()
			}
		}
		if !bytes.Equal(m.GetRoot(), refmpt.Root(c, 0)) {
			return "ins 10, ins 11, ins \"\": root differs from the canonical root"
		}
		return ""
	})
}
