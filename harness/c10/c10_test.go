// C10 — block proofs verify for the honest trie and cannot be forged.
package c10

import (
	"bytes"
	"encoding/binary"
	"fmt"
	"testing"

	"github.com/0chain/common/core/util/wmpt"
	"github.com/fxamacker/cbor/v2"
	"pgregory.net/rapid"

	"verif/harness/internal/ev"
	"verif/harness/internal/gen"
	"verif/harness/internal/memkv"
	"verif/harness/internal/refwmpt"
	"verif/harness/internal/wmkit"
)

const (
	findReweight = "C10-branch-child-weights-not-authenticated"
	findKind     = "C10-node-kind-not-hashed"
)

// asValueRecord builds the value record whose hash equals the hash of the given branch or short record
// (the node hash has no domain separation): branch H(BE64(sum) || 16 child hashes), short H(key || child hash),
// value H(BE64(weight) || value).
func asValueRecord(n *wmpt.PersistNodeBase) *wmpt.PersistNodeBase {
	var pre []byte
	switch {
	case n.Branch != nil:
		var sum uint64
		body := make([]byte, 0, 16*32)
		for i := 0; i < 16; i++ {
			if i < len(n.Branch.Children) && len(n.Branch.Children[i]) >= 40 {
				body = append(body, n.Branch.Children[i][:32]...)
				sum += binary.BigEndian.Uint64(n.Branch.Children[i][32:40])
			} else {
				body = append(body, refwmpt.Empty...)
			}
		}
		return &wmpt.PersistNodeBase{Value: &wmpt.PersistNodeValue{Value: body, Weight: sum, Hash: n.Branch.Hash}}
	case n.Short != nil && len(n.Short.Key) >= 8 && len(n.Short.Value) == 40:
		pre = append(append([]byte{}, n.Short.Key...), n.Short.Value[:32]...)
		return &wmpt.PersistNodeBase{Value: &wmpt.PersistNodeValue{Value: pre[8:], Weight: binary.BigEndian.Uint64(pre[:8]), Hash: n.Short.Hash}}
	}
	return nil
}

// kindConfusion reports whether proof ends in a value record standing in for a non-value node of the honest proof.
func kindConfusion(proof, honest []byte) bool {
	_, fn, err := decodeProof(proof)
	if err != nil || len(fn) == 0 || fn[len(fn)-1].Value == nil {
		return false
	}
	last := fn[len(fn)-1].Value
	_, hn, err := decodeProof(honest)
	if err != nil {
		return false
	}
	for _, n := range hn {
		if v := asValueRecord(n); v != nil && v.Value.Weight == last.Weight && bytes.Equal(v.Value.Value, last.Value) {
			return true
		}
	}
	return false
}

func TestMain(m *testing.M) {
	ev.SetMeta(ev.Meta{
		Property: "C10", Level: "exploration",
		Rule: "rapid draws a trie content (1..10 keys over prefix-sharing 32-byte keys; in memory or committed at a drawn collapse level), a block number in 1..total, and a tamper script of 1..3 edits applied to the decoded honest proof: scale a branch's child weights, swap two sibling blobs, replace a child hash, edit an embedded short child's key/value hash, substitute a proof element by an element of another proof of the same trie or of another trie, drop/duplicate/reorder elements, insert an element of another proof (mostly appended after the last element), change claimed Hash fields, change value bytes or weight in the leaf, ask for a different block, raw bit flips (and, unless listed as a known finding, move weight between children of a branch keeping the sum). " +
			"Oracle: the honest proof verifies in a fresh trie to (trusted root, owner's value); for ANY submitted bytes, if VerifyBlockProof returns no error and the returned hash equals the trusted root, the returned value must be the value of the true owner of the block asked for. Errors and other hashes are fine; panics are failures. " +
			"The trie a proof is taken from was reached by a history (further updates and deletes after hashes were computed); tamper kinds include inserting an element of another proof (mostly appended at the end); every tampered proof is judged by a fresh verifier and by one that verified the honest proof before. Non-trivial = the tampered proof differs from the honest one, still decodes as CBOR with decodable nodes, and reaches the verifier's hash/weight logic (not rejected at the first decode); distinct = distinct (content, block, tampered bytes).",
		Assumptions: []string{"the trusted root is the independent reference root of the content", "sha3 collision resistance"},
	})
	ev.Main(m)
}

type fataler interface{ Fatalf(string, ...any) }

func decodeProof(p []byte) (*wmpt.PersistTrie, []*wmpt.PersistNodeBase, error) {
	var pt wmpt.PersistTrie
	if err := cbor.Unmarshal(p, &pt); err != nil {
		return nil, nil, err
	}
	nodes := make([]*wmpt.PersistNodeBase, len(pt.Pairs))
	for i, pr := range pt.Pairs {
		var n wmpt.PersistNodeBase
		if err := cbor.Unmarshal(pr.Value, &n); err != nil {
			return nil, nil, err
		}
		nodes[i] = &n
	}
	return &pt, nodes, nil
}

func encodeProof(nodes []*wmpt.PersistNodeBase) []byte {
	pt := wmpt.PersistTrie{}
	for _, n := range nodes {
		b, err := cbor.Marshal(n)
		if err != nil {
			panic(err)
		}
		pt.Pairs = append(pt.Pairs, &wmpt.PersistTriePair{Value: b})
	}
	out, err := cbor.Marshal(&pt)
	if err != nil {
		panic(err)
	}
	return out
}

// weightless renders a proof with all branch child weights zeroed (to recognise the re-weight-only class).
func weightless(p []byte) string {
	_, nodes, err := decodeProof(p)
	if err != nil {
		return "!" + string(p)
	}
	for _, n := range nodes {
		if n.Branch != nil {
			for i, c := range n.Branch.Children {
				if len(c) >= 40 {
					cc := append([]byte(nil), c...)
					for j := 32; j < 40; j++ {
						cc[j] = 0
					}
					n.Branch.Children[i] = cc
				}
			}
		}
	}
	return string(encodeProof(nodes))
}

// kindConfusionAnywhere: the value record a proof ends in carries, as its value, the hashed body of a branch or short
// node that lies on the honest path of ANY entry of the trie (the descent may have been steered there by other means).
func kindConfusionAnywhere(w *world, proof []byte) bool {
	_, fn, err := decodeProof(proof)
	if err != nil || len(fn) == 0 || fn[len(fn)-1].Value == nil {
		return false
	}
	last := fn[len(fn)-1].Value
	var cum uint64
	for _, e := range w.entries {
		if _, hp, err := w.trie.GetBlockProof(cum + 1); err == nil {
			if _, hn, err := decodeProof(hp); err == nil {
				for _, n := range hn {
					if v := asValueRecord(n); v != nil && bytes.Equal(v.Value.Value, last.Value) {
						return true
					}
				}
			}
		}
		cum += e.Weight
	}
	return false
}

// branchWeights lists the child weights of every branch element of a proof.
func branchWeights(p []byte) string {
	_, nodes, err := decodeProof(p)
	if err != nil {
		return "!"
	}
	out := ""
	for _, n := range nodes {
		if n.Branch != nil {
			for i, c := range n.Branch.Children {
				if len(c) >= 40 {
					out += fmt.Sprintf("%d:%x;", i, c[32:40])
				}
			}
			out += "|"
		}
	}
	return out
}

// reweightedOntoARealEntry: the value an accepted forgery returns belongs to a real entry of the trie, and the forgery
// differs from that entry's honest proof in the child weights of some branch - the descent was steered there by weights
// that the root does not authenticate (the listed finding), whatever else was changed in fields the verifier ignores.
func reweightedOntoARealEntry(w *world, proof, v []byte) bool {
	var cum uint64
	for _, e := range w.entries {
		if bytes.Equal(e.Value, v) {
			_, hp, err := w.trie.GetBlockProof(cum + 1)
			if err != nil {
				return false
			}
			return branchWeights(proof) != branchWeights(hp)
		}
		cum += e.Weight
	}
	return false
}

type world struct {
	entries []refwmpt.Entry
	root    []byte
	total   uint64
	trie    *wmpt.WeightedMerkleTrie
	only    []int // if set: the entries whose blocks the prover can prove
}

func buildWorld(rt *rapid.T, label string) *world {
	var failure string
	m := wmkit.New(nil, func(f string, a ...any) { failure = fmt.Sprintf(f, a...) })
	withDB := gen.Chance(rt, 50, label+"db")
	if withDB {
		m = wmkit.New(memkv.New(), func(f string, a ...any) { failure = fmt.Sprintf(f, a...) })
	}
	pool := wmkit.GenKeyPool(rt, gen.Uniform(rt, 1, 10, label+"n"))
	counter := 0
	for i, k := range pool {
		m.Update(k, wmkit.GenValue(rt, i, &counter, true))
	}
	if withDB {
		m.Commit(gen.Pick(rt, []int{0, 1, 2, 3, 64}, label+"lvl"))
	}
	// a snapshot of the committed trie (a copy of its top levels over the same storage) may be kept while the
	// original goes on; proofs are then taken from the snapshot, which still stands for the state it was taken from
	var snapTrie *wmpt.WeightedMerkleTrie
	var snapEntries []refwmpt.Entry
	if withDB && len(m.Model) > 0 && gen.Chance(rt, 35, label+"snapshot") {
		snapTrie = wmpt.New(m.T.CopyRoot(gen.Pick(rt, []int{0, 1, 2, 3, 64}, label+"snaplvl")), m.DB)
		snapEntries = wmkit.Entries(m.Model)
	}
	// the trie a proof is taken from was reached by a history, not only by inserts
	churned := m.Churn(rt, pool, &counter, label+"churn")
	if churned > 0 {
		ev.Class("world-reached-by-history", 1)
	}
	if failure != "" {
		rt.Fatalf("HARNESS: building the trie failed: %s", failure)
	}
	if snapTrie != nil && churned > 0 {
		ev.Class("proofs-from-a-snapshot-whose-original-moved-on", 1)
		w := &world{entries: snapEntries, trie: snapTrie}
		w.root, w.total = refwmpt.Root(w.entries)
		return w
	}
	w := &world{entries: wmkit.Entries(m.Model), trie: m.T}
	w.root, w.total = refwmpt.Root(w.entries)
	if len(w.entries) > 0 && gen.Chance(rt, 15, label+"partial") {
		// the prover is a partial trie: another object loaded from a path export for some of the keys; it proves the
		// blocks of those keys (their siblings are collapsed references that carry their weights)
		var req [][]byte
		for i, e := range w.entries {
			if gen.Chance(rt, 50, label+"req") || (len(w.only) == 0 && i == len(w.entries)-1) {
				req = append(req, append([]byte(nil), e.Key...))
				w.only = append(w.only, i)
			}
		}
		_ = m.T.Root()
		data, err := m.T.GetPath(req)
		if err != nil {
			rt.Fatalf("HARNESS: GetPath: %v", err)
		}
		part := wmpt.New(nil, nil)
		if err := part.Deserialize(data); err != nil {
			rt.Fatalf("HARNESS: Deserialize of an honest export: %v", err)
		}
		w.trie = part
		ev.Class("proofs-from-a-partial-trie", 1)
	}
	return w
}

// drawBlock: uniform over 1..total, or (half of the time) the first or last block of a drawn key's interval.
func (w *world) drawBlock(rt *rapid.T, label string) uint64 {
	if w.only != nil || gen.Chance(rt, 50, label+"edge") {
		i := gen.Uniform(rt, 0, len(w.entries)-1, label+"entry")
		if w.only != nil {
			i = gen.Pick(rt, w.only, label+"entryonly")
		}
		var cum uint64
		for _, e := range w.entries[:i] {
			cum += e.Weight
		}
		if gen.Chance(rt, 50, label+"last") {
			return cum + w.entries[i].Weight
		}
		return cum + 1
	}
	return uint64(gen.Uniform(rt, 1, int(w.total), label))
}

func (w *world) honest(t fataler, block uint64) []byte {
	key, proof, err := w.trie.GetBlockProof(block)
	if err != nil {
		t.Fatalf("GetBlockProof(%d): %v", block, err)
	}
	owner, _, _, _ := refwmpt.Owner(w.entries, block)
	if !bytes.Equal(key, owner.Key) {
		t.Fatalf("block %d owner %x, trie says %x", block, owner.Key, key)
	}
	return proof
}

// judge applies the soundness oracle to arbitrary bytes.
func judge(t fataler, w *world, block uint64, proof []byte, honest []byte, what string) (reached string) {
	reached = judgeWith(t, w, block, proof, honest, what, wmpt.New(nil, nil))
	if !bytes.Equal(proof, honest) {
		// the same verdict is required of a verifier object that has verified the honest proof before
		used := wmpt.New(nil, nil)
		if _, _, err := used.VerifyBlockProof(block, honest); err == nil {
			if r := judgeWith(t, w, block, proof, honest, what+" (verifier that verified the honest proof before)", used); r != reached {
				ev.Class("verdict-differs-on-a-used-verifier:"+reached+"->"+r, 1)
			}
		}
	}
	return reached
}

func judgeWith(t fataler, w *world, block uint64, proof []byte, honest []byte, what string, verifier *wmpt.WeightedMerkleTrie) (reached string) {
	var h, v []byte
	var err error
	func() {
		defer func() {
			if r := recover(); r != nil {
				t.Fatalf("VerifyBlockProof panicked on %s: %v (proof %x)", what, r, proof)
			}
		}()
		h, v, err = verifier.VerifyBlockProof(block, proof)
	}()
	if err != nil {
		return "rejected"
	}
	if !bytes.Equal(h, w.root) {
		return "other-root"
	}
	owner, _, _, ok := refwmpt.Owner(w.entries, block)
	if ok && bytes.Equal(v, owner.Value) {
		return "verifies-to-truth"
	}
	if ev.Known(findReweight) && weightless(proof) == weightless(honest) {
		ev.Excluded(findReweight + ": accepted forgery that differs from the honest proof only in branch child weights")
		return "known-reweight-forgery"
	}
	if ev.Known(findReweight) && reweightedOntoARealEntry(w, proof, v) {
		ev.Excluded(findReweight + ": accepted forgery that returns another real entry's value and differs from that entry's honest proof in branch child weights (the offsets were shifted)")
		return "known-reweight-forgery"
	}
	if ev.Known(findKind) && (kindConfusion(proof, honest) || kindConfusionAnywhere(w, proof)) {
		ev.Excluded(findKind + ": accepted forgery whose last element is a value record with the hash of a branch/short node")
		return "known-kind-confusion-forgery"
	}
	t.Fatalf("FORGERY (%s): block %d verifies to the trusted root %x with value %x, the true owner's value is %x (in range: %v)\nproof %x\nhonest %x", what, block, h, v, owner.Value, ok, proof, honest)
	return ""
}

func putU64(b []byte, v uint64) { binary.BigEndian.PutUint64(b, v) }

// tamper applies one edit to the decoded proof; returns its name ("" if not applicable).
func tamper(rt *rapid.T, nodes *[]*wmpt.PersistNodeBase, other []*wmpt.PersistNodeBase, allowReweight bool, label string) string {
	ns := *nodes
	if len(ns) == 0 {
		return ""
	}
	var branches []int
	for i, n := range ns {
		if n.Branch != nil {
			branches = append(branches, i)
		}
	}
	kinds := []string{"scale-weights", "swap-siblings", "replace-child-hash", "edit-embedded-short", "substitute-element", "insert-foreign-element", "insert-foreign-element", "drop", "duplicate", "reorder", "claimed-hash", "leaf-value", "leaf-weight", "short-key", "short-child-ref", "relink-value", "relink-value"}
	if allowReweight {
		kinds = append(kinds, "reweight-keep-sum", "reweight-keep-sum")
	}
	if !ev.Known(findKind) {
		kinds = append(kinds, "kind-confusion", "kind-confusion")
	}
	kind := gen.Pick(rt, kinds, label+"kind")
	childIdx := func(b *wmpt.PersistNodeBranch) []int {
		var idx []int
		for i, c := range b.Children {
			if len(c) >= 40 {
				idx = append(idx, i)
			}
		}
		return idx
	}
	switch kind {
	case "kind-confusion":
		// replace a branch/short element by the value record with the same hash and cut the proof there
		var cands []int
		for i, n := range ns {
			if asValueRecord(n) != nil {
				cands = append(cands, i)
			}
		}
		if len(cands) == 0 {
			return ""
		}
		i := gen.Pick(rt, cands, label+"at")
		*nodes = append(append([]*wmpt.PersistNodeBase{}, ns[:i]...), asValueRecord(ns[i]))
	case "reweight-keep-sum":
		if len(branches) == 0 {
			return ""
		}
		b := ns[gen.Pick(rt, branches, label+"b")].Branch
		idx := childIdx(b)
		if len(idx) < 2 {
			return ""
		}
		i := gen.Uniform(rt, 0, len(idx)-2, label+"i")
		a, c := idx[i], idx[i+1]
		wa, wc := binary.BigEndian.Uint64(b.Children[a][32:40]), binary.BigEndian.Uint64(b.Children[c][32:40])
		sum := wa + wc
		na := uint64(gen.Uniform(rt, 0, int(sum), label+"na"))
		ca, cc := append([]byte(nil), b.Children[a]...), append([]byte(nil), b.Children[c]...)
		putU64(ca[32:40], na)
		putU64(cc[32:40], sum-na)
		b.Children[a], b.Children[c] = ca, cc
	case "scale-weights":
		if len(branches) == 0 {
			return ""
		}
		b := ns[gen.Pick(rt, branches, label+"b")].Branch
		f := uint64(gen.Uniform(rt, 2, 3, label+"f"))
		for _, i := range childIdx(b) {
			c := append([]byte(nil), b.Children[i]...)
			putU64(c[32:40], binary.BigEndian.Uint64(c[32:40])*f)
			b.Children[i] = c
		}
	case "swap-siblings":
		if len(branches) == 0 {
			return ""
		}
		b := ns[gen.Pick(rt, branches, label+"b")].Branch
		i, j := gen.Uniform(rt, 0, 15, label+"i"), gen.Uniform(rt, 0, 15, label+"j")
		if len(b.Children) < 16 {
			return ""
		}
		b.Children[i], b.Children[j] = b.Children[j], b.Children[i]
	case "replace-child-hash":
		if len(branches) == 0 {
			return ""
		}
		b := ns[gen.Pick(rt, branches, label+"b")].Branch
		idx := childIdx(b)
		if len(idx) == 0 {
			return ""
		}
		i := gen.Pick(rt, idx, label+"i")
		c := append([]byte(nil), b.Children[i]...)
		if len(idx) > 1 && gen.Chance(rt, 50, label+"sib") {
			copy(c[:32], b.Children[gen.Pick(rt, idx, label+"j")][:32])
		} else {
			c[gen.Uniform(rt, 0, 31, label+"pos")] ^= 1
		}
		b.Children[i] = c
	case "edit-embedded-short":
		for _, bi := range branches {
			b := ns[bi].Branch
			for i, c := range b.Children {
				if len(c) > 72 {
					cc := append([]byte(nil), c...)
					cc[gen.Uniform(rt, 40, len(cc)-1, label+"pos")] ^= byte(1 + gen.Uniform(rt, 0, 6, label+"bit"))
					b.Children[i] = cc
					return kind
				}
			}
		}
		return ""
	case "substitute-element":
		if len(other) == 0 {
			return ""
		}
		ns[gen.Uniform(rt, 0, len(ns)-1, label+"at")] = other[gen.Uniform(rt, 0, len(other)-1, label+"from")]
	case "insert-foreign-element":
		// an element of another proof is added - mostly at the very end (after everything the descent consumes), else anywhere
		if len(other) == 0 {
			return ""
		}
		el := other[gen.Uniform(rt, 0, len(other)-1, label+"from")]
		if gen.Chance(rt, 60, label+"lastfrom") {
			el = other[len(other)-1] // the other proof's value record
		}
		at := len(ns)
		if gen.Chance(rt, 35, label+"anywhere") {
			at = gen.Uniform(rt, 0, len(ns), label+"at")
		}
		*nodes = append(append(append([]*wmpt.PersistNodeBase{}, ns[:at]...), el), ns[at:]...)
	case "drop":
		i := gen.Uniform(rt, 0, len(ns)-1, label+"at")
		*nodes = append(append([]*wmpt.PersistNodeBase{}, ns[:i]...), ns[i+1:]...)
	case "duplicate":
		i := gen.Uniform(rt, 0, len(ns)-1, label+"at")
		*nodes = append(append(append([]*wmpt.PersistNodeBase{}, ns[:i+1]...), ns[i]), ns[i+1:]...)
	case "reorder":
		if len(ns) < 2 {
			return ""
		}
		i := gen.Uniform(rt, 0, len(ns)-2, label+"at")
		ns[i], ns[i+1] = ns[i+1], ns[i]
	case "claimed-hash":
		n := ns[gen.Uniform(rt, 0, len(ns)-1, label+"at")]
		flip := func(h []byte) []byte {
			h = append([]byte(nil), h...)
			if len(h) > 0 {
				h[0] ^= 0x80
			}
			return h
		}
		switch {
		case n.Branch != nil:
			n.Branch.Hash = flip(n.Branch.Hash)
		case n.Short != nil:
			n.Short.Hash = flip(n.Short.Hash)
		case n.Value != nil:
			n.Value.Hash = flip(n.Value.Hash)
		}
	case "relink-value":
		// a coordinated forgery: another value (same weight) in the value record, with its correct hash, and the
		// reference to it in the element above re-linked to that hash; every claimed hash above stays what it was
		vi := -1
		for i, n := range ns {
			if n.Value != nil {
				vi = i
			}
		}
		if vi < 1 {
			return ""
		}
		val := ns[vi].Value
		oldHash := append([]byte(nil), val.Hash...)
		v := append([]byte(nil), val.Value...)
		if len(v) == 0 {
			return ""
		}
		v[gen.Uniform(rt, 0, len(v)-1, label+"pos")] ^= 0x20
		nv := *val
		nv.Value, nv.Hash = v, refwmpt.ValueHash(v, val.Weight)
		relinked := false
		for up := vi - 1; up >= 0 && !relinked; up-- {
			switch p := ns[up]; {
			case p.Short != nil && len(p.Short.Value) == 40 && bytes.Equal(p.Short.Value[:32], oldHash):
				sh := *p.Short
				sh.Value = append(append([]byte(nil), nv.Hash...), p.Short.Value[32:]...)
				ns[up] = &wmpt.PersistNodeBase{Short: &sh}
				relinked = true
			case p.Branch != nil:
				for ci, c := range p.Branch.Children {
					if len(c) == 40 && bytes.Equal(c[:32], oldHash) {
						br := *p.Branch
						br.Children = append([][]byte(nil), p.Branch.Children...)
						br.Children[ci] = append(append([]byte(nil), nv.Hash...), c[32:]...)
						ns[up] = &wmpt.PersistNodeBase{Branch: &br}
						relinked = true
						break
					}
				}
			}
		}
		if !relinked {
			return ""
		}
		ns[vi] = &wmpt.PersistNodeBase{Value: &nv}
		// a branch further up may carry the short node embedded in its child record (hash, weight, value reference, key
		// rest): half of the time that copy of the value reference is rewritten too, the short node's own hash stays
		if gen.Chance(rt, 50, label+"deep") {
			for up := vi - 1; up >= 0; up-- {
				if b := ns[up].Branch; b != nil {
					for ci, c := range b.Children {
						if len(c) >= 72 && bytes.Equal(c[40:72], oldHash) {
							br := *b
							br.Children = append([][]byte(nil), b.Children...)
							cc := append([]byte(nil), c...)
							copy(cc[40:72], nv.Hash)
							br.Children[ci] = cc
							ns[up] = &wmpt.PersistNodeBase{Branch: &br}
							kind = "relink-value-and-embedded-reference"
						}
					}
				}
			}
		}
	case "leaf-value", "leaf-weight":
		for _, n := range ns {
			if n.Value != nil {
				if kind == "leaf-value" {
					v := append([]byte(nil), n.Value.Value...)
					v[gen.Uniform(rt, 0, len(v)-1, label+"pos")] ^= 0x10
					n.Value.Value = v
				} else {
					n.Value.Weight += uint64(gen.Uniform(rt, 1, 3, label+"dw"))
				}
				return kind
			}
		}
		return ""
	case "short-key", "short-child-ref":
		for _, n := range ns {
			if n.Short != nil {
				if kind == "short-key" {
					k := append([]byte(nil), n.Short.Key...)
					if len(k) == 0 {
						return ""
					}
					k[gen.Uniform(rt, 0, len(k)-1, label+"pos")] ^= 1
					n.Short.Key = k
				} else {
					v := append([]byte(nil), n.Short.Value...)
					if len(v) != 40 {
						return ""
					}
					if gen.Chance(rt, 50, label+"w") {
						putU64(v[32:], binary.BigEndian.Uint64(v[32:])+uint64(gen.Uniform(rt, 1, 5, label+"dw")))
					} else {
						v[gen.Uniform(rt, 0, 31, label+"pos")] ^= 4
					}
					n.Short.Value = v
				}
				return kind
			}
		}
		return ""
	}
	return kind
}

func TestProofsSoundAndComplete(t *testing.T) {
	// the weight-shift forgery, pinned
	ev.Rapid(t, 10000, 40000)
	allowReweight := !ev.Known(findReweight)
	if !allowReweight {
		ev.Excluded(findReweight + ": the tamper kind 'move weight between children of a branch keeping the sum' is not drawn")
	}
	rapid.Check(t, func(rt *rapid.T) {
		w := buildWorld(rt, "w")
		if w.total == 0 {
			rt.Skip("empty trie")
		}
		block := w.drawBlock(rt, "block")
		honest := w.honest(rt, block)
		if r := judge(rt, w, block, honest, honest, "honest proof"); r != "verifies-to-truth" {
			rt.Fatalf("honest proof for block %d of %d: %s", block, w.total, r)
		}
		_, nodes, err := decodeProof(honest)
		if err != nil {
			rt.Fatalf("HARNESS: honest proof does not decode: %v", err)
		}
		// material for substitution: another proof of the same trie, or of another trie
		var other []*wmpt.PersistNodeBase
		if gen.Chance(rt, 50, "othersame") {
			ob := uint64(gen.Uniform(rt, 1, int(w.total), "otherblock"))
			if w.only != nil {
				ob = w.drawBlock(rt, "otherblockpartial")
			}
			_, other, _ = decodeProof(w.honest(rt, ob))
		} else {
			w2 := buildWorld(rt, "x")
			if w2.total > 0 {
				_, other, _ = decodeProof(w2.honest(rt, w2.drawBlock(rt, "xblock")))
			}
		}
		var applied []string
		for i := 0; i < gen.Uniform(rt, 1, 3, "nedits"); i++ {
			if k := tamper(rt, &nodes, other, allowReweight, fmt.Sprintf("e%d", i)); k != "" {
				applied = append(applied, k)
			}
		}
		forged := encodeProof(nodes)
		ask := block
		if gen.Chance(rt, 20, "otherblockasked") {
			ask = uint64(gen.Uniform(rt, 1, int(w.total), "ask"))
			applied = append(applied, "ask-other-block")
		}
		if gen.Chance(rt, 10, "bitflip") && len(forged) > 0 {
			forged = append([]byte(nil), forged...)
			forged[gen.Uniform(rt, 0, len(forged)-1, "flipat")] ^= byte(1 << gen.Uniform(rt, 0, 7, "flipbit"))
			applied = append(applied, "raw-bit-flip")
		}
		res := judge(rt, w, ask, forged, honest, fmt.Sprint(applied))
		differs := !bytes.Equal(forged, honest) || ask != block
		_, _, derr := decodeProof(forged)
		nt := differs && derr == nil && len(applied) > 0
		cls := []string{"outcome:" + res}
		for _, a := range applied {
			cls = append(cls, "tamper:"+a)
		}
		if derr != nil {
			cls = append(cls, "decode-reject")
		}
		ev.Case(fmt.Sprintf("%x|%d|%x", w.root, ask, forged), nt, cls...)
		if nt && ev.WantSample() {
			ev.Sample(map[string]any{"keys": len(w.entries), "total_weight": w.total, "block": ask, "edits": applied, "outcome": res, "proof_elements": len(nodes)})
		}
	})
}

func TestWitnesses(t *testing.T) {
	ev.Witness(t, findReweight, func() string {
		k1, k2 := make([]byte, 32), make([]byte, 32)
		k2[0] = 0x10
		tr := wmpt.New(nil, nil)
		_ = tr.Update(k1, []byte("first"), 5)
		_ = tr.Update(k2, []byte("second"), 3)
		root := tr.Root()
		_, proof, err := tr.GetBlockProof(7) // owned by k2
		if err != nil {
			return ""
		}
		_, nodes, err := decodeProof(proof)
		if err != nil || nodes[0].Branch == nil {
			return ""
		}
		// claimed child weights 5/3 -> 1/7, then ask for block 2 (true owner: k1)
		b := nodes[0].Branch
		c0, c1 := append([]byte(nil), b.Children[0]...), append([]byte(nil), b.Children[1]...)
		putU64(c0[32:40], 1)
		putU64(c1[32:40], 7)
		b.Children[0], b.Children[1] = c0, c1
		h, v, err := wmpt.New(nil, nil).VerifyBlockProof(2, encodeProof(nodes))
		if err == nil && bytes.Equal(h, root) && string(v) != "first" {
			return fmt.Sprintf("two keys with weights 5 and 3; the proof for block 7 with the branch's claimed child weights changed to 1 and 7 verifies block 2 to the real root with value %q (true owner's value \"first\")", v)
		}
		return ""
	})
}

// The deepest possible paths: one key plus, for every nibble position, a key that differs from it exactly there
// (65-element proofs), and tries where two keys share 63 nibbles or a single entry exists.
func TestDeepestPathsHonest(t *testing.T) {
	build := func(positions []int) *world {
		base := make([]byte, 32)
		tr := wmpt.New(nil, nil)
		var es []refwmpt.Entry
		add := func(k []byte, i int) {
			v := []byte{byte(i), 0x33, byte(i >> 8)}
			w := wmkit.WeightOf(v)
			if err := tr.Update(k, v, w); err != nil {
				t.Fatalf("Update: %v", err)
			}
			es = append(es, refwmpt.Entry{Key: k, Value: v, Weight: w})
		}
		add(base, 0)
		for _, p := range positions {
			k := make([]byte, 32)
			if p%2 == 0 {
				k[p/2] = 0x10
			} else {
				k[p/2] = 0x01
			}
			add(k, p+1)
		}
		w := &world{entries: es, trie: tr}
		w.root, w.total = refwmpt.Root(es)
		return w
	}
	all := make([]int, 64)
	for i := range all {
		all[i] = i
	}
	for name, pos := range map[string][]int{"every-nibble": all, "last-nibble-only": {63}, "single-entry": nil, "even-nibbles": {0, 2, 4, 20, 40, 62}, "deep-half": all[32:]} {
		w := build(pos)
		for b := uint64(1); b <= w.total; b++ {
			var honest []byte
			ev.Guard(t, "GetBlockProof", func() { honest = w.honest(t, b) })
			if r := judge(t, w, b, honest, honest, "honest proof, "+name); r != "verifies-to-truth" {
				t.Fatalf("%s: honest proof for block %d of %d: %s", name, b, w.total, r)
			}
			ev.Case(fmt.Sprintf("deep/%s/%d", name, b), true, "deepest-paths:"+name)
		}
	}
}

func TestWitnessKindConfusion(t *testing.T) {
	if ev.Known(findKind) {
		ev.Excluded(findKind + ": the tamper kind 'value record standing in for a branch/short node' is not drawn")
	}
	ev.Witness(t, findKind, func() string {
		k1, k2 := make([]byte, 32), make([]byte, 32)
		k2[0] = 0x10
		tr := wmpt.New(nil, nil)
		_ = tr.Update(k1, []byte("first"), 5)
		_ = tr.Update(k2, []byte("second"), 3)
		root := tr.Root()
		_, proof, err := tr.GetBlockProof(2)
		if err != nil {
			return ""
		}
		_, nodes, err := decodeProof(proof)
		if err != nil || nodes[0].Branch == nil {
			return ""
		}
		forged := encodeProof([]*wmpt.PersistNodeBase{asValueRecord(nodes[0])})
		h, v, err := wmpt.New(nil, nil).VerifyBlockProof(2, forged)
		if err == nil && bytes.Equal(h, root) && string(v) != "first" {
			return fmt.Sprintf("two keys; a one-element proof consisting of a value record {weight 8, value = the root branch's 16 child hashes} verifies block 2 to the real root with a %d-byte value that is not the owner's", len(v))
		}
		return ""
	})
}

// FuzzVerifyTampered: coverage-guided mutation of honest proofs with the same oracle inside the target.
func FuzzVerifyTampered(f *testing.F) {
	ws := fuzzWorlds()
	for wi, w := range ws {
		for b := uint64(1); b <= w.total; b += 1 + w.total/6 {
			_, p, err := w.trie.GetBlockProof(b)
			if err == nil {
				f.Add(uint8(wi), uint16(b), p)
			}
		}
	}
	f.Fuzz(func(t *testing.T, wi uint8, blk uint16, proof []byte) {
		w := ws[int(wi)%len(ws)]
		block := 1 + uint64(blk)%w.total
		_, honest, err := w.trie.GetBlockProof(block)
		if err != nil {
			t.Fatalf("GetBlockProof: %v", err)
		}
		judge(t, w, block, proof, honest, "fuzz input")
	})
}

// fuzzWorlds builds a few fixed tries (deterministic, no rapid).
func fuzzWorlds() []*world {
	var out []*world
	for n := 1; n <= 7; n += 2 {
		tr := wmpt.New(nil, nil)
		var es []refwmpt.Entry
		for i := 0; i < n; i++ {
			k := make([]byte, 32)
			k[0] = byte(i%3) << 4
			k[1] = byte(i)
			k[31] = byte(i * 7)
			v := []byte{byte(i), 0xaa, byte(n)}
			w := wmkit.WeightOf(v)
			_ = tr.Update(k, v, w)
			es = append(es, refwmpt.Entry{Key: k, Value: v, Weight: w})
		}
		w := &world{entries: es, trie: tr}
		w.root, w.total = refwmpt.Root(es)
		tr.Root()
		out = append(out, w)
	}
	return out
}
