package c18

import (
	"math"
	"testing"

	"verif/harness/internal/ev"
)

// TestAAFirstCalls runs before every other test of the package (file and function names sort first): each function
// sees its extreme operands as the very first call of the process, before anything could have warmed a cache.
func TestAAFirstCalls(t *testing.T) {
	ev.Guard(t, "TestAAFirstCalls", func() {
		checkToZCN(t, math.MaxUint64)
		checkConv(t, math.MaxUint64, math.MinInt64)
		checkParse(t, 2e9)
		checkParse(t, math.NaN())
		checkFloatToCoin(t, math.Ldexp(1, 64))
		checkMult(t, math.MaxUint64, math.MaxUint64)
		checkAdd(t, math.MaxUint64, 1)
		checkMinus(t, 0, 1)
		checkDistribute(t, math.MaxUint64, 0)
		checkMultFloat(t, math.MaxUint64, math.Ldexp(1, -64))
		// the same failing inputs twice in a row, after a success in between
		checkParse(t, 1.5)
		checkParse(t, 2e9)
		checkParse(t, 2e9)
		checkToZCN(t, 15000000000)
		checkToZCN(t, math.MaxUint64)
		checkToZCN(t, math.MaxUint64)
		ev.Case("first-calls", true, "first-calls-of-the-process")
	})
}
