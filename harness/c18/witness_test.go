package c18

import (
	"fmt"
	"math"
	"testing"

	"github.com/0chain/common/core/currency"

	"verif/harness/internal/ev"
)

// Minimal inputs of the defects found by this check (see KNOWN_FINDINGS.txt).
func TestWitnesses(t *testing.T) {
	ev.Witness(t, "C18-mult-wraps-to-zero", func() string {
		if v, err := currency.MultCoin(1<<32, 1<<32); err == nil {
			return fmt.Sprintf("MultCoin(2^32,2^32) = %d, nil", v)
		}
		return ""
	})
	ev.Witness(t, "C18-distribute-zero-divisor", func() string {
		if q, r, err := currency.DistributeCoin(10, 0); err == nil {
			return fmt.Sprintf("DistributeCoin(10,0) = %d,%d,nil", q, r)
		}
		return ""
	})
	ev.Witness(t, "C18-float-to-coin-range", func() string {
		for _, f := range []float64{math.NaN(), math.Inf(1), math.Ldexp(1, 64)} {
			if v, err := currency.Float64ToCoin(f); err == nil {
				return fmt.Sprintf("Float64ToCoin(%v) = %d, nil", f, v)
			}
		}
		if v, err := currency.MultFloat64(1<<63, 4); err == nil {
			return fmt.Sprintf("MultFloat64(2^63,4) = %d, nil", v)
		}
		return ""
	})
	ev.Witness(t, "C18-parsezcn-nan-inf", func() string {
		for _, f := range []float64{math.NaN(), math.Inf(1), math.Inf(-1)} {
			if v, err := currency.ParseZCN(f); err == nil {
				return fmt.Sprintf("ParseZCN(%v) = %d, nil", f, v)
			}
		}
		return ""
	})
}
