// C18 — currency arithmetic is exact or fails loudly.
package c18

import (
	"fmt"
	"math"
	"math/big"
	"strconv"
	"strings"
	"sync"
	"testing"

	"github.com/0chain/common/core/currency"
	"pgregory.net/rapid"

	"verif/harness/internal/ev"
	"verif/harness/internal/gen"
)

func TestMain(m *testing.M) {
	ev.SetMeta(ev.Meta{
		Property: "C18", Level: "exploration",
		Rule: "operands drawn by rapid from a boundary pool (0,1,2, 2^k-1/2^k/2^k+1, 2^63+-1, 2^64-1, isqrt(2^64)+-2, 10^k, constructed pairs with a*b = 0 mod 2^64 and a*b straddling 2^64-1, a+b straddling 2^64; floats from bit patterns: +-0, subnormals, 2^53+-1, 2^63, 2^64 and neighbours, 1e19, MaxFloat64, +-Inf, NaNs, negatives, decimal amounts with 0..12 fractional digits) united with uniform 64-bit values; every exported function of package currency is evaluated per draw and compared with math/big. " +
			"The full cross product of the integer pool is also enumerated for the binary integer helpers. Non-trivial = at least one operand from the boundary pool or the exact result within 2 of a representability boundary; distinct = distinct (function, operands).",
		Assumptions: []string{"math/big is the arithmetic reference", "for AddInt64/MinusInt64 with a negative int64 either an error or the exact representable result is accepted (the statement does not fix which)", "for -0.0 arguments either an error or 0 is accepted"},
	})
	ev.Main(m)
}

var (
	two64   = new(big.Int).Lsh(big.NewInt(1), 64)
	maxU    = new(big.Int).Sub(two64, big.NewInt(1))
	maxI    = big.NewInt(math.MaxInt64)
	two64f  = math.Ldexp(1, 64)
	intPool []uint64
	fltPool []float64
)

func init() {
	add := func(v uint64) { intPool = append(intPool, v) }
	add(0)
	add(1)
	add(2)
	add(3)
	for k := uint(1); k <= 63; k++ {
		p := uint64(1) << k
		add(p - 1)
		add(p)
		add(p + 1)
	}
	add(math.MaxUint64)
	add(math.MaxUint64 - 1)
	add(1<<63 - 2)
	add(1<<63 + 2)
	for d := -2; d <= 2; d++ {
		add(uint64(int64(4294967296) + int64(d)))
	}
	p := uint64(1)
	for k := 0; k < 19; k++ {
		p *= 10
		add(p - 1)
		add(p)
		add(p + 1)
	}
	// float64 rounding ties and their neighbours (even and odd mantissa) at 64, 63 and 54 bits
	for _, base := range []uint64{1 << 63, 1<<63 + 2048, 1<<64 - 4096, 1 << 62, 1<<62 + 1024, 1 << 53, 1<<53 + 2} {
		ulp := uint64(2048)
		if base < 1<<63 {
			ulp = 1024
		}
		if base < 1<<62 {
			ulp = 2
		}
		add(base + ulp/2 - 1)
		add(base + ulp/2)
		add(base + ulp/2 + 1)
	}
	add(6074001000) // ~ sqrt(2^65)
	add(3037000499) // isqrt(2^63)
	add(3037000500)
	seen := map[uint64]bool{}
	var u []uint64
	for _, v := range intPool {
		if !seen[v] {
			seen[v] = true
			u = append(u, v)
		}
	}
	intPool = u

	f := func(v float64) { fltPool = append(fltPool, v) }
	f(0)
	f(math.Copysign(0, -1))
	f(math.SmallestNonzeroFloat64)
	f(-math.SmallestNonzeroFloat64)
	f(math.Float64frombits(0x000fffffffffffff)) // largest subnormal
	f(math.Nextafter(1, 0))
	f(1)
	f(math.Nextafter(1, 2))
	f(0.5)
	f(0.1)
	f(1e-10)
	f(1e-11)
	f(9.999999999e-1)
	f(math.Ldexp(1, 53) - 1)
	f(math.Ldexp(1, 53))
	f(math.Ldexp(1, 53) + 2)
	f(math.Ldexp(1, 63))
	f(math.Nextafter(math.Ldexp(1, 63), 0))
	f(math.Nextafter(math.Ldexp(1, 63), math.Inf(1)))
	f(two64f)
	f(math.Nextafter(two64f, 0))
	f(math.Nextafter(two64f, math.Inf(1)))
	f(1e19)
	f(1.8446744073709552e19)
	f(9.223372036854775807e8)
	f(922337203.6854775807)
	f(922337203.6854776)
	f(922337203.6854777)
	f(1e300)
	f(math.MaxFloat64)
	f(math.Inf(1))
	f(math.Inf(-1))
	f(math.NaN())
	f(math.Float64frombits(0x7ff8000000000001))
	f(math.Float64frombits(0xfff8000000000000))
	f(math.Float64frombits(0x7ff0000000000001)) // signalling NaN pattern
	f(-1)
	f(-0.5)
	f(-1e-300)
	f(-1e19)
	f(-math.MaxFloat64)
	f(2)
	f(4)
	f(1.5)
	f(1e10)
}

type gctx struct {
	pooled bool
}

func genU(rt *rapid.T, g *gctx, label string) uint64 {
	switch rapid.IntRange(0, 10).Draw(rt, label+"_kind") {
	case 0, 1, 2, 3, 4:
		g.pooled = true
		return rapid.SampledFrom(intPool).Draw(rt, label)
	case 10:
		// at or next to a float64 rounding tie: 54..64 significant bits, the bits below the 53-bit mantissa are
		// exactly half a unit in the last place, or one less or one more (even and odd mantissas)
		g.pooled = true
		l := gen.Uniform(rt, 54, 64, label+"_len")
		mant := uint64(1)<<52 | rapid.Uint64Range(0, 1<<52-1).Draw(rt, label+"_mant")
		if gen.Chance(rt, 50, label+"_odd") {
			mant |= 1
		} else {
			mant &^= 1
		}
		shift := uint(l - 53)
		low := uint64(1)<<(shift-1) + uint64(gen.Uniform(rt, 0, 2, label+"_d")) - 1
		return mant<<shift + low
	case 5, 6:
		return rapid.Uint64().Draw(rt, label)
	case 7:
		return rapid.Uint64Range(0, 1000).Draw(rt, label)
	case 8:
		// odd multiple of a power of two
		k := rapid.UintRange(0, 63).Draw(rt, label+"_k")
		m := rapid.Uint64Range(1, 1<<20).Draw(rt, label+"_m") | 1
		g.pooled = true
		return m << k
	default:
		return math.MaxUint64 - rapid.Uint64Range(0, 1<<16).Draw(rt, label)
	}
}

// genPair draws two operands, often related so that sums/products straddle 2^64.
func genPair(rt *rapid.T, g *gctx) (uint64, uint64) {
	a := genU(rt, g, "a")
	switch rapid.IntRange(0, 5).Draw(rt, "pair_kind") {
	case 0:
		if a > 1 {
			g.pooled = true
			q := math.MaxUint64 / a
			d := rapid.Uint64Range(0, 2).Draw(rt, "d")
			if rapid.Bool().Draw(rt, "up") {
				if q+d >= q {
					return a, q + d
				}
			}
			return a, q - min64(d, q)
		}
	case 1:
		g.pooled = true
		d := rapid.Uint64Range(0, 2).Draw(rt, "d")
		b := math.MaxUint64 - a // a+b = 2^64-1
		if rapid.Bool().Draw(rt, "up") && b+d >= b {
			return a, b + d
		}
		return a, b - min64(d, b)
	case 2:
		// product = 0 mod 2^64 with both factors non-zero
		k := rapid.UintRange(1, 63).Draw(rt, "k")
		m1 := rapid.Uint64Range(1, 1<<(64-k)-1).Draw(rt, "m1") | 1
		m2 := rapid.Uint64Range(1, 1<<k-1).Draw(rt, "m2")
		g.pooled = true
		return (m1 << k) & math.MaxUint64, m2 << (64 - k)
	}
	return a, genU(rt, g, "b")
}

func min64(a, b uint64) uint64 {
	if a < b {
		return a
	}
	return b
}

func genI(rt *rapid.T, g *gctx, label string) int64 {
	switch rapid.IntRange(0, 5).Draw(rt, label+"_kind") {
	case 0:
		g.pooled = true
		return rapid.SampledFrom([]int64{0, 1, -1, 2, -2, math.MaxInt64, math.MinInt64, math.MaxInt64 - 1, math.MinInt64 + 1, 1 << 32, -(1 << 32), 10, 3}).Draw(rt, label)
	case 1:
		return rapid.Int64().Draw(rt, label)
	case 2:
		return rapid.Int64Range(-5, 50).Draw(rt, label)
	case 3:
		g.pooled = true
		return int64(rapid.SampledFrom(intPool).Draw(rt, label)) // wraps for >= 2^63: negatives near boundaries
	default:
		return rapid.Int64Range(1, math.MaxInt64).Draw(rt, label)
	}
}

func genF(rt *rapid.T, g *gctx, label string) float64 {
	switch rapid.IntRange(0, 6).Draw(rt, label+"_kind") {
	case 0, 1:
		g.pooled = true
		return rapid.SampledFrom(fltPool).Draw(rt, label)
	case 2:
		return math.Float64frombits(rapid.Uint64().Draw(rt, label))
	case 3:
		// decimal-looking amount with 0..12 fractional digits
		ip := rapid.Uint64Range(0, 2000000000).Draw(rt, label+"_ip")
		nd := rapid.IntRange(0, 12).Draw(rt, label+"_nd")
		fr := ""
		if nd > 0 {
			fr = "." + rapid.StringMatching(fmt.Sprintf("[0-9]{%d}", nd)).Draw(rt, label+"_fr")
		}
		v, _ := strconv.ParseFloat(fmt.Sprintf("%d%s", ip, fr), 64)
		return v
	case 4:
		g.pooled = true
		return float64(rapid.SampledFrom(intPool).Draw(rt, label))
	case 5:
		return rapid.Float64Range(0, 4).Draw(rt, label)
	default:
		return rapid.Float64().Draw(rt, label)
	}
}

func bu(v uint64) *big.Int { return new(big.Int).SetUint64(v) }

func near(x *big.Int) bool {
	for _, b := range []*big.Int{big.NewInt(0), maxU, two64, maxI} {
		d := new(big.Int).Sub(x, b)
		if d.CmpAbs(big.NewInt(2)) <= 0 {
			return true
		}
	}
	return false
}

type failer interface {
	Fatalf(string, ...any)
}

// exactOrError: a helper returning a Coin must give exactly want if it fits uint64, else an error.
func exactOrError(t failer, name string, got currency.Coin, err error, want *big.Int, args ...any) {
	fits := want.Sign() >= 0 && want.Cmp(maxU) <= 0
	if fits {
		if err != nil {
			t.Fatalf("%s%v: error %v but exact result %v is representable", name, args, err, want)
		}
		if bu(uint64(got)).Cmp(want) != 0 {
			t.Fatalf("%s%v = %d, want %v", name, args, uint64(got), want)
		}
	} else if err == nil {
		t.Fatalf("%s%v = %d with nil error, exact result %v is not representable", name, args, uint64(got), want)
	}
}

func checkMult(t failer, a, b uint64) {
	got, err := currency.MultCoin(currency.Coin(a), currency.Coin(b))
	exactOrError(t, "MultCoin", got, err, new(big.Int).Mul(bu(a), bu(b)), a, b)
}
func checkAdd(t failer, a, b uint64) {
	got, err := currency.AddCoin(currency.Coin(a), currency.Coin(b))
	exactOrError(t, "AddCoin", got, err, new(big.Int).Add(bu(a), bu(b)), a, b)
}
func checkMinus(t failer, a, b uint64) {
	got, err := currency.MinusCoin(currency.Coin(a), currency.Coin(b))
	exactOrError(t, "MinusCoin", got, err, new(big.Int).Sub(bu(a), bu(b)), a, b)
}
func checkMin(t failer, a, b uint64) {
	got := currency.Min(currency.Coin(a), currency.Coin(b))
	w := a
	if b < a {
		w = b
	}
	if uint64(got) != w {
		t.Fatalf("Min(%d,%d)=%d", a, b, got)
	}
}

func checkAddInt64(t failer, c uint64, a int64) {
	got, err := currency.AddInt64(currency.Coin(c), a)
	want := new(big.Int).Add(bu(c), big.NewInt(a))
	if a < 0 {
		// conversion of a itself is not representable: error accepted; a value must be exact
		if err == nil && (want.Sign() < 0 || bu(uint64(got)).Cmp(want) != 0) {
			t.Fatalf("AddInt64(%d,%d) = %d, nil", c, a, got)
		}
		return
	}
	exactOrError(t, "AddInt64", got, err, want, c, a)
}
func checkMinusInt64(t failer, c uint64, a int64) {
	got, err := currency.MinusInt64(currency.Coin(c), a)
	want := new(big.Int).Sub(bu(c), big.NewInt(a))
	if a < 0 {
		if err == nil && (want.Cmp(maxU) > 0 || bu(uint64(got)).Cmp(want) != 0) {
			t.Fatalf("MinusInt64(%d,%d) = %d, nil", c, a, got)
		}
		return
	}
	exactOrError(t, "MinusInt64", got, err, want, c, a)
}

func checkDistribute(t failer, c uint64, a int64) {
	q, r, err := currency.DistributeCoin(currency.Coin(c), a)
	if a <= 0 {
		if err == nil {
			t.Fatalf("DistributeCoin(%d,%d) = %d,%d with nil error for a non-positive divisor", c, a, q, r)
		}
		return
	}
	if err != nil {
		t.Fatalf("DistributeCoin(%d,%d): %v", c, a, err)
	}
	if uint64(r) >= uint64(a) {
		t.Fatalf("DistributeCoin(%d,%d): remainder %d >= divisor", c, a, r)
	}
	back := new(big.Int).Add(new(big.Int).Mul(bu(uint64(q)), big.NewInt(a)), bu(uint64(r)))
	if back.Cmp(bu(c)) != 0 {
		t.Fatalf("DistributeCoin(%d,%d) = %d rem %d does not recompose", c, a, q, r)
	}
}

func checkConv(t failer, c uint64, a int64) {
	i, err := currency.Coin(c).Int64()
	if c <= math.MaxInt64 {
		if err != nil || i != int64(c) {
			t.Fatalf("Coin(%d).Int64() = %d,%v", c, i, err)
		}
	} else if err == nil {
		t.Fatalf("Coin(%d).Int64() = %d, nil", c, i)
	}
	cc, err := currency.Int64ToCoin(a)
	if a >= 0 {
		if err != nil || uint64(cc) != uint64(a) {
			t.Fatalf("Int64ToCoin(%d) = %d,%v", a, cc, err)
		}
	} else if err == nil {
		t.Fatalf("Int64ToCoin(%d) = %d, nil", a, cc)
	}
	f, err := currency.Coin(c).Float64()
	want, _ := new(big.Float).SetPrec(53).SetMode(big.ToNearestEven).SetUint64(c).Float64()
	if err != nil || f != want {
		t.Fatalf("Coin(%d).Float64() = %v,%v want %v", c, f, err, want)
	}
	// msgp round trip
	b, err := currency.Coin(c).MarshalMsg(nil)
	if err != nil {
		t.Fatalf("MarshalMsg(%d): %v", c, err)
	}
	var back currency.Coin
	rest, err := back.UnmarshalMsg(b)
	if err != nil || len(rest) != 0 || uint64(back) != c {
		t.Fatalf("msgp round trip of %d gives %d, rest %d, err %v", c, back, len(rest), err)
	}
	// the encoding handed out by the previous call is still that call's amount
	if heldEnc != nil {
		var old currency.Coin
		if _, err := old.UnmarshalMsg(heldEnc); err != nil || uint64(old) != heldVal {
			t.Fatalf("the bytes MarshalMsg(nil) returned for %d decode to %d (%v) after %d was marshalled", heldVal, old, err, c)
		}
	}
	heldEnc, heldVal = b, c
}

var (
	heldEnc []byte
	heldVal uint64
)

// floatToCoinWant: ok=false means an error is required.
func floatToCoinWant(f float64) (want uint64, ok bool) {
	if math.IsNaN(f) || math.IsInf(f, 0) || f < 0 || f >= two64f {
		return 0, false
	}
	u, _ := new(big.Float).SetFloat64(f).Uint64() // truncates toward zero
	return u, true
}

func checkFloatToCoin(t failer, f float64) {
	got, err := currency.Float64ToCoin(f)
	want, ok := floatToCoinWant(f)
	if !ok {
		if err == nil {
			t.Fatalf("Float64ToCoin(%v [%#x]) = %d with nil error", f, math.Float64bits(f), got)
		}
		return
	}
	if f == 0 && math.Signbit(f) && err != nil {
		return // -0: rejecting it is acceptable
	}
	if err != nil || uint64(got) != want {
		t.Fatalf("Float64ToCoin(%v) = %d,%v want %d", f, got, err, want)
	}
}

func checkMultFloat(t failer, c uint64, a float64) {
	got, err := currency.MultFloat64(currency.Coin(c), a)
	mustErr := false
	var want uint64
	switch {
	case math.IsNaN(a) || a < 0 || math.IsInf(a, 0):
		mustErr = true
	default:
		cf := new(big.Float).SetPrec(53).SetMode(big.ToNearestEven).SetUint64(c)
		p := new(big.Float).SetPrec(53).SetMode(big.ToNearestEven).Mul(cf, new(big.Float).SetFloat64(a))
		if p.Sign() < 0 || p.Cmp(new(big.Float).SetInt(two64)) >= 0 {
			mustErr = true
		} else {
			want, _ = p.Uint64()
		}
	}
	if mustErr {
		if err == nil {
			t.Fatalf("MultFloat64(%d, %v [%#x]) = %d with nil error", c, a, math.Float64bits(a), got)
		}
		return
	}
	if a == 0 && math.Signbit(a) && err != nil {
		return
	}
	if err != nil || uint64(got) != want {
		t.Fatalf("MultFloat64(%d, %v) = %d,%v want %d", c, a, got, err, want)
	}
}

// parseWant: shortest round-trip decimal of f times 10^10 must be a non-negative integer <= MaxInt64.
func parseWant(f float64) (want uint64, ok bool) {
	if math.IsNaN(f) || math.IsInf(f, 0) {
		return 0, false
	}
	if f == 0 {
		return 0, true
	}
	s := strconv.FormatFloat(f, 'e', -1, 64) // d.ddddde±xx
	neg := strings.HasPrefix(s, "-")
	s = strings.TrimPrefix(s, "-")
	ei := strings.IndexByte(s, 'e')
	mant, exps := s[:ei], s[ei+1:]
	exp, _ := strconv.Atoi(exps)
	digits := strings.Replace(mant, ".", "", 1)
	exp -= len(digits) - 1 // value = digits * 10^exp
	if neg {
		return 0, false
	}
	e := exp + 10
	n, _ := new(big.Int).SetString(digits, 10)
	if e >= 0 {
		if e > 40 {
			return 0, false
		}
		n.Mul(n, new(big.Int).Exp(big.NewInt(10), big.NewInt(int64(e)), nil))
	} else {
		d := new(big.Int).Exp(big.NewInt(10), big.NewInt(int64(-e)), nil)
		q, r := new(big.Int).QuoRem(n, d, new(big.Int))
		if r.Sign() != 0 {
			return 0, false
		}
		n = q
	}
	if n.Cmp(maxI) > 0 {
		return 0, false
	}
	return n.Uint64(), true
}

func checkParse(t failer, f float64) {
	got, err := currency.ParseZCN(f)
	want, ok := parseWant(f)
	if !ok {
		if err == nil {
			t.Fatalf("ParseZCN(%v [%#x]) = %d with nil error", f, math.Float64bits(f), got)
		}
		return
	}
	if err != nil || uint64(got) != want {
		t.Fatalf("ParseZCN(%v) = %d,%v want %d", f, got, err, want)
	}
}

func sigDigits(c uint64) int {
	s := strings.TrimRight(strconv.FormatUint(c, 10), "0")
	return len(s)
}

func checkToZCN(t failer, c uint64) {
	f, err := currency.Coin(c).ToZCN()
	if c > math.MaxInt64 {
		if err == nil {
			t.Fatalf("Coin(%d).ToZCN() = %v, nil", c, f)
		}
		return
	}
	if err != nil {
		t.Fatalf("Coin(%d).ToZCN(): %v", c, err)
	}
	want, _ := new(big.Float).SetPrec(200).Quo(new(big.Float).SetPrec(200).SetUint64(c), new(big.Float).SetPrec(200).SetFloat64(1e10)).Float64()
	if f != want {
		t.Fatalf("Coin(%d).ToZCN() = %v want %v", c, f, want)
	}
	if sigDigits(c) <= 15 {
		back, err := currency.ParseZCN(f)
		if err != nil || uint64(back) != c {
			t.Fatalf("ParseZCN(Coin(%d).ToZCN()=%v) = %d,%v", c, f, back, err)
		}
	}
}

func TestPoolCrossProduct(t *testing.T) {
	n := 0
	for _, a := range intPool {
		for _, b := range intPool {
			a, b := a, b
			ev.Guard(t, fmt.Sprintf("integer helpers(%d,%d)", a, b), func() {
				checkMult(t, a, b)
				checkAdd(t, a, b)
				checkMinus(t, a, b)
				checkMin(t, a, b)
				checkAddInt64(t, a, int64(b))
				checkMinusInt64(t, a, int64(b))
				checkDistribute(t, a, int64(b))
			})
			n++
			ev.Case(fmt.Sprintf("x/%d/%d", a, b), true, "pool-cross-product")
		}
		checkConv(t, a, int64(a))
		checkToZCN(t, a)
		for _, f := range fltPool {
			f := f
			ev.Guard(t, fmt.Sprintf("MultFloat64(%d,%v)", a, f), func() { checkMultFloat(t, a, f) })
		}
	}
	for _, f := range fltPool {
		f := f
		ev.Guard(t, fmt.Sprintf("float helpers(%v)", f), func() {
			checkFloatToCoin(t, f)
			checkParse(t, f)
		})
	}
	ev.Extra("pool_size_int", len(intPool))
	ev.Extra("pool_size_float", len(fltPool))
	ev.Sample(map[string]any{"fn": "cross-product", "pairs": n, "example": []uint64{intPool[10], intPool[200%len(intPool)]}})
}

func TestCurrency(t *testing.T) {
	ev.Rapid(t, 150000, 1500000)
	rapid.Check(t, func(rt *rapid.T) {
		g := &gctx{}
		a, b := genPair(rt, g)
		i := genI(rt, g, "i")
		f := genF(rt, g, "f")
		checkMult(rt, a, b)
		checkAdd(rt, a, b)
		checkMinus(rt, a, b)
		checkMin(rt, a, b)
		checkAddInt64(rt, a, i)
		checkMinusInt64(rt, a, i)
		checkDistribute(rt, a, i)
		checkConv(rt, a, i)
		checkFloatToCoin(rt, f)
		checkMultFloat(rt, a, f)
		checkMultFloat(rt, b, f)
		// related operands: a share 1/n (or k/n) of a multiple of n; two whole numbers of 21..33 bits each
		n := uint64(gen.Uniform(rt, 1, 5000, "sharen"))
		mult := n * uint64(gen.Uniform(rt, 0, 1<<21, "sharemult"))
		checkMultFloat(rt, mult, 1/float64(n))
		checkMultFloat(rt, mult, float64(gen.Uniform(rt, 1, 7, "sharek"))/float64(n))
		checkMultFloat(rt, uint64(gen.Uniform(rt, 1<<21, 1<<33, "wholec")), float64(gen.Uniform(rt, 1<<21, 1<<33, "wholea")))
		// a short binary fraction (k/2^m) of an amount of 40..53 bits, also just below 2^53
		m := gen.Uniform(rt, 1, 32, "dyadm")
		k := uint64(gen.Uniform(rt, 0, 1<<uint(m)-1, "dyadk")) | 1
		dy := float64(k) / float64(uint64(1)<<uint(m))
		checkMultFloat(rt, uint64(1)<<53-uint64(gen.Uniform(rt, 1, 4096, "below53")), dy)
		checkMultFloat(rt, uint64(gen.Uniform(rt, 1<<40, 1<<53, "dyadc")), dy)
		// whole tokens above the signed range
		checkToZCN(rt, (uint64(gen.Uniform(rt, 922337203, 1844674407, "wholetokens")))*10000000000)
		checkParse(rt, f)
		checkToZCN(rt, a)
		checkToZCN(rt, b%1000000000000000)
		prod := new(big.Int).Mul(bu(a), bu(b))
		sum := new(big.Int).Add(bu(a), bu(b))
		nt := g.pooled || near(prod) || near(sum)
		var cls []string
		if prod.Cmp(maxU) > 0 {
			cls = append(cls, "mult-overflow")
			if new(big.Int).Mod(prod, two64).Sign() == 0 {
				cls = append(cls, "mult-wraps-to-zero")
			}
		}
		if sum.Cmp(maxU) > 0 {
			cls = append(cls, "add-overflow")
		}
		if i == 0 {
			cls = append(cls, "zero-divisor")
		}
		if i < 0 {
			cls = append(cls, "negative-int64")
		}
		if math.IsNaN(f) || math.IsInf(f, 0) {
			cls = append(cls, "nan-or-inf")
		} else if f >= math.Ldexp(1, 63) {
			cls = append(cls, "float>=2^63")
		} else if f < 0 {
			cls = append(cls, "negative-float")
		}
		if _, ok := parseWant(f); ok {
			cls = append(cls, "parse-accepts")
		}
		desc := fmt.Sprintf("%d/%d/%d/%x", a, b, i, math.Float64bits(f))
		ev.Case(desc, nt, cls...)
		if nt && ev.WantSample() {
			ev.Sample(map[string]any{"a": a, "b": b, "i": i, "f": fmt.Sprint(f), "classes": cls})
		}
	})
}

// FuzzCurrency: raw operand bits, same oracles (thorough tier, coverage-guided).
func FuzzCurrency(f *testing.F) {
	for _, a := range intPool[:20] {
		f.Add(a, uint64(1)<<32, int64(0), math.Float64bits(1.5))
	}
	for _, x := range fltPool {
		f.Add(uint64(1)<<32, uint64(1)<<32, int64(-1), math.Float64bits(x))
	}
	f.Fuzz(func(t *testing.T, a, b uint64, i int64, fb uint64) {
		fl := math.Float64frombits(fb)
		defer func() {
			if r := recover(); r != nil {
				t.Fatalf("panic: %v (a=%d b=%d i=%d f=%v)", r, a, b, i, fl)
			}
		}()
		checkMult(t, a, b)
		checkAdd(t, a, b)
		checkMinus(t, a, b)
		checkAddInt64(t, a, i)
		checkMinusInt64(t, a, i)
		checkDistribute(t, a, i)
		checkConv(t, a, i)
		checkFloatToCoin(t, fl)
		checkMultFloat(t, a, fl)
		checkParse(t, fl)
		checkToZCN(t, a)
	})
}

// collector is a failer for goroutines: the first message is kept and the calling goroutine stops.
type collector struct {
	mu  sync.Mutex
	msg string
}

type stopNow struct{}

func (c *collector) Fatalf(f string, a ...any) {
	c.mu.Lock()
	if c.msg == "" {
		c.msg = fmt.Sprintf(f, a...)
	}
	c.mu.Unlock()
	panic(stopNow{})
}

// The helpers are plain functions of their arguments: several callers at once get the same exact results as one.
func TestSeveralCallersAtOnce(t *testing.T) {
	seed := ev.SeedFor("TestSeveralCallersAtOnce")
	col := &collector{}
	var wg sync.WaitGroup
	const callers = 8
	per := 6000
	if ev.Thorough() {
		per = 60000
	}
	for g := 0; g < callers; g++ {
		wg.Add(1)
		go func(g int) {
			defer wg.Done()
			defer func() {
				if r := recover(); r != nil {
					if _, ok := r.(stopNow); !ok {
						col.mu.Lock()
						if col.msg == "" {
							col.msg = fmt.Sprintf("panic in a helper called from goroutine %d: %v", g, r)
						}
						col.mu.Unlock()
					}
				}
			}()
			x := seed*0x9e3779b97f4a7c15 + uint64(g)*0xbf58476d1ce4e5b9 + 1
			next := func() uint64 {
				x ^= x << 13
				x ^= x >> 7
				x ^= x << 17
				return x
			}
			for i := 0; i < per; i++ {
				a, b := intPool[next()%uint64(len(intPool))], intPool[next()%uint64(len(intPool))]
				if i%3 == 0 {
					a = next() >> (next() % 64)
				}
				f := fltPool[next()%uint64(len(fltPool))]
				checkMult(col, a, b)
				checkAdd(col, a, b)
				checkMinus(col, a, b)
				checkAddInt64(col, a, int64(b))
				checkDistribute(col, a, int64(b))
				checkFloatToCoin(col, f)
				checkMultFloat(col, a, f)
				checkParse(col, f)
				checkToZCN(col, a)
				checkToZCN(col, b)
			}
		}(g)
	}
	wg.Wait()
	if col.msg != "" {
		t.Fatalf("with %d callers at once: %s", callers, col.msg)
	}
	ev.Case(fmt.Sprintf("concurrent/%d", seed), true, "several-callers-at-once")
	ev.Extra("concurrent_callers", callers)
}
