// C03 — child tries are isolated transactions: merge publishes, discard leaves no trace.
package c03

import (
	"bytes"
	"context"
	"errors"
	"fmt"
	"sort"
	"strings"
	"testing"

	"github.com/0chain/common/core/statecache"
	"github.com/0chain/common/core/util"
	"pgregory.net/rapid"

	"verif/harness/internal/ev"
	"verif/harness/internal/gen"
	"verif/harness/internal/mptkit"
	"verif/harness/internal/refmpt"
)

func TestMain(m *testing.M) {
	ev.SetMeta(ev.Meta{
		Property: "C03", Level: "exploration",
		Rule: "rapid state machine over a block trie (LevelNodeDB(memory, base) with generated genesis content built by inserts and deletes, shared BlockCache) and up to 5 concurrently open child tries created exactly like the chain's CreateTxnMPT (plus grand-children): open, child insert/delete/get, merge (with or without committing the child's transaction cache), discard. " +
			"Oracle: a model map per trie; after every step every trie other than the one operated on must present the same root and the same rendered pending change set (hash + full encoding of New/Old, deletes) as before, every non-stale trie must read (lookups + Iterate) exactly its model, an accepted merge makes the parent's root and content the child's, a merge of a stale child with a different start root must be rejected without effect, the block trie's root must resolve from base + its own pending New nodes re-keyed by the reference hasher, and the block's own node store read without any node cache must hold the same state. " +
			"Merges go through MergeMPTChanges or the by-value entry point MergeChanges, the child's cache may be committed before the merge, cold readers (CloneMPT + full iteration) walk open tries, children insert nested-prefix triples; a medium-scale case merges a child with 50..120 operations into a block state of 60..160 keys. Non-trivial = at least two children overlapped in time and a discarded or stale child performed a delete after an earlier sibling had merged; distinct = distinct step list.",
		Assumptions: []string{"a child whose parent moved on (stale) may fail its own operations; only the parent and non-stale siblings are protected", "children that were ever stale are discarded rather than merged when the parent's root happens to equal their start root again"},
	})
	ev.Main(m)
}

type trie struct {
	name      string
	mpt       *util.MerklePatriciaTrie
	parent    *trie
	model     map[string][]byte
	startRoot []byte
	stale     bool // parent's root changed while this trie was open
	open      bool
	didDelete bool
	touched   []string
	openedAt  int
	plan      []string // paths this trie inserts next (nested-prefix triples)
}

type step struct {
	Kind  string `json:"k"`
	Trie  string `json:"t,omitempty"`
	Path  string `json:"p,omitempty"`
	Val   string `json:"v,omitempty"`
	Flag  bool   `json:"commit_cache,omitempty"`
	Child string `json:"c,omitempty"`
}

func (s step) String() string {
	switch s.Kind {
	case "open":
		return fmt.Sprintf("open %s on %s", s.Child, s.Trie)
	case "ins":
		return fmt.Sprintf("%s.ins(%q,%s)", s.Trie, s.Path, s.Val)
	case "del":
		return fmt.Sprintf("%s.del(%q)", s.Trie, s.Path)
	case "merge":
		return fmt.Sprintf("merge %s into %s (commit cache: %v)", s.Child, s.Trie, s.Flag)
	case "commit-cache+merge", "commit-cache+merge(by value)":
		return fmt.Sprintf("commit the cache of %s, then merge it into %s [%s]", s.Child, s.Trie, s.Kind)
	case "merge(by value)":
		return fmt.Sprintf("merge %s into %s by value (commit cache: %v)", s.Child, s.Trie, s.Flag)
	case "discard":
		return fmt.Sprintf("discard %s", s.Child)
	case "read":
		return fmt.Sprintf("read view of %s", s.Trie)
	case "cold-read":
		return fmt.Sprintf("cold clone of %s iterated", s.Trie)
	}
	return s.Kind
}

type world struct {
	t       *rapid.T
	base    *util.MemoryNodeDB
	bc      *statecache.BlockCache
	block   *trie
	tries   []*trie // all ever created, block first
	genesis []mptkit.Op
	steps   []step
	nextID  int
	version int64
}

func (w *world) failf(f string, a ...any) {
	var ss []string
	for _, s := range w.steps {
		ss = append(ss, s.String())
	}
	w.t.Fatalf("%s\ngenesis: %v\nsteps:\n  %s", fmt.Sprintf(f, a...), w.genesis, strings.Join(ss, "\n  "))
}

// snapshot renders what must not change in a trie nobody touched.
func snapshot(t *trie) string {
	root, changes, deletes, start := t.mpt.GetChanges()
	var cs []string
	for _, c := range changes {
		s := fmt.Sprintf("new %s %x", c.New.GetHash(), c.New.Encode())
		if c.Old != nil {
			s += fmt.Sprintf(" old %s %x", c.Old.GetHash(), c.Old.Encode())
		}
		cs = append(cs, s)
	}
	sort.Strings(cs)
	var ds []string
	for _, d := range deletes {
		ds = append(ds, fmt.Sprintf("%s %x", d.GetHash(), d.Encode()))
	}
	sort.Strings(ds)
	return fmt.Sprintf("root %x start %x\nchanges %v\ndeletes %v", root, start, cs, ds)
}

// diff shows the first difference between two snapshots.
func diff(a, b string) string {
	la, lb := strings.Split(a, " new "), strings.Split(b, " new ")
	for i := 0; i < len(la) || i < len(lb); i++ {
		var x, y string
		if i < len(la) {
			x = la[i]
		}
		if i < len(lb) {
			y = lb[i]
		}
		if x != y {
			if len(x) > 400 {
				x = x[:400] + "..."
			}
			if len(y) > 400 {
				y = y[:400] + "..."
			}
			return fmt.Sprintf("\n  before: %s\n  after:  %s", x, y)
		}
	}
	return ""
}

func (w *world) openTries() []*trie {
	var out []*trie
	for _, t := range w.tries {
		if t.open {
			out = append(out, t)
		}
	}
	return out
}

// checkView: a non-stale open trie reads exactly its model.
func (w *world) checkView(t *trie, when string) {
	for p, want := range t.model {
		got, err := t.mpt.GetNodeValueRaw(util.Path(p))
		if err != nil || !bytes.Equal(got, want) {
			w.failf("%s: %s lookup %q = %x, %v; want %x", when, t.name, p, got, err, want)
		}
	}
	got, err := mptkit.Content(t.mpt)
	if err != nil || !mptkit.EqualContent(got, t.model) {
		w.failf("%s: %s iterates to %s (%v), model %s", when, t.name, mptkit.Show(got), err, mptkit.Show(t.model))
	}
}

// checkBlockResolvable: block root resolves from base + the block's pending New nodes keyed by the reference hash.
func (w *world) checkBlockResolvable(when string) {
	raw := map[string][]byte{}
	_ = w.base.Iterate(context.Background(), func(_ context.Context, key util.Key, node util.Node) error {
		raw[string(key)] = node.Encode()
		return nil
	})
	_, changes, _, _ := w.block.mpt.GetChanges()
	for _, c := range changes {
		enc := c.New.Encode()
		n, err := refmpt.Parse(enc)
		if err != nil {
			w.failf("%s: pending block node does not parse: %x", when, enc)
		}
		raw[string(refmpt.Hash(n))] = enc
	}
	wk := refmpt.WalkFrom(w.block.mpt.GetRoot(), mptkit.GetterOfMap(raw), false)
	if len(wk.Missing) > 0 || len(wk.Problems) > 0 {
		w.failf("%s: block root %x does not resolve from base + pending changes: missing %d, problems %v", when, w.block.mpt.GetRoot(), len(wk.Missing), wk.Problems)
	}
	if !mptkit.EqualContent(wk.Content, w.block.model) {
		w.failf("%s: block content from base + pending changes is %s, model %s", when, mptkit.Show(wk.Content), mptkit.Show(w.block.model))
	}
	// the block's own node store (this round's level over base), read without any node cache, holds the same state:
	// what a merge publishes must not live in the shared cache only
	ws := refmpt.WalkFrom(w.block.mpt.GetRoot(), mptkit.GetterOf(w.block.mpt.GetNodeDB()), false)
	if len(ws.Missing) > 0 || len(ws.Problems) > 0 {
		w.failf("%s: block root %x does not resolve from the block's node store: missing %d, problems %v", when, w.block.mpt.GetRoot(), len(ws.Missing), ws.Problems)
	}
	if !mptkit.EqualContent(ws.Content, w.block.model) {
		w.failf("%s: block content read from its node store is %s, model %s", when, mptkit.Show(ws.Content), mptkit.Show(w.block.model))
	}
}

func (w *world) descendantOf(t, anc *trie) bool {
	for p := t; p != nil; p = p.parent {
		if p == anc {
			return true
		}
	}
	return false
}

func (w *world) markStale(parent *trie) {
	for _, t := range w.tries {
		if t.open && t != parent && w.descendantOf(t, parent) {
			t.stale = true
		}
	}
}

func newChild(w *world, parent *trie) *trie {
	w.nextID++
	db := util.NewLevelNodeDB(util.NewMemoryNodeDB(), parent.mpt.GetNodeDB(), false)
	c := &trie{
		name:      fmt.Sprintf("t%d", w.nextID),
		parent:    parent,
		model:     mptkit.CopyContent(parent.model),
		startRoot: append([]byte(nil), parent.mpt.GetRoot()...),
		open:      true,
		stale:     parent.stale,
		openedAt:  len(w.steps),
	}
	c.mpt = util.NewMerklePatriciaTrie(db, parent.mpt.GetVersion(), parent.mpt.GetRoot(), statecache.NewTransactionCache(w.bc))
	w.tries = append(w.tries, c)
	return c
}

// genGenesis builds the base store content by a history with deletes.
func genGenesis(rt *rapid.T, w *world) (map[string][]byte, []byte, []string) {
	model := map[string][]byte{}
	var used []string
	var ops []mptkit.Op
	if gen.Chance(rt, 50, "directed") {
		// two keys under a common 3-nibble prefix and one key diverging after the first nibble
		a := gen.Pick(rt, []string{"a0", "10", "f1"}, "ga")
		b1 := gen.Pick(rt, []string{"b1", "01", "1a"}, "gb1")
		k1 := a + b1
		k2 := a + b1[:1] + gen.Pick(rt, []string{"2", "f", "0"}, "gb2")
		k3 := a[:1] + gen.Pick(rt, []string{"1cc", "f", "100"}, "gc")
		if len(k3)%2 == 1 {
			k3 += "0"
		}
		trio := []string{k1, k2, k3}
		if gen.Chance(rt, 50, "pairOnly") {
			trio = trio[:2]
		}
		for _, k := range trio {
			if _, dup := model[k]; !dup {
				v := mptkit.GenValue(rt, "gv")
				ops = append(ops, mptkit.Op{Kind: "ins", Path: k, Val: fmt.Sprintf("%x", v)})
				model[k] = v
				used = append(used, k)
			}
		}
	}
	ops = append(ops, mptkit.GenOpsP(rt, model, &used, gen.Uniform(rt, 0, 10, "gn"), 3, 25, "g")...)
	g := mptkit.NewTrie(w.base, w.version, nil)
	if err := mptkit.Apply(g, ops); err != nil {
		rt.Fatalf("genesis %v: %v", ops, err)
	}
	w.genesis = ops
	return model, append([]byte(nil), g.GetRoot()...), used
}

func TestIsolation(t *testing.T) {
	ev.Rapid(t, 5000, 40000)
	rapid.Check(t, func(rt *rapid.T) { run(rt) })
}

func run(rt *rapid.T) {
	w := &world{t: rt, base: util.NewMemoryNodeDB(), version: int64(gen.Uniform(rt, 0, 2, "version"))}
	gmodel, groot, used := genGenesis(rt, w)
	// the block executes at the next version on top of the stored genesis
	if gen.Chance(rt, 70, "newversion") {
		w.version++
	}
	sc := statecache.NewStateCache()
	w.bc = statecache.NewBlockCache(sc, statecache.Block{Round: w.version, Hash: "block", PrevHash: "prev"})
	w.block = &trie{name: "block", model: gmodel, open: true, startRoot: groot}
	w.block.mpt = util.NewMerklePatriciaTrie(util.NewLevelNodeDB(util.NewMemoryNodeDB(), w.base, false), util.Sequence(w.version), groot, statecache.NewTransactionCache(w.bc))
	w.tries = []*trie{w.block}

	nsteps := gen.Uniform(rt, 4, 30, "nsteps")
	var touchedByMerged []string // keys touched by children that merged into the block
	overlap, staleRejected, discarded, cacheCommitted, cacheNot, grand := false, false, false, false, false, false
	lateDelete := false
	nested := false
	byValue := false
	coldReads := false
	var nestForks []string
	mergedCount := 0

	for i := 0; i < nsteps; i++ {
		open := w.openTries()
		children := open[1:]
		if len(children) >= 2 {
			overlap = true
		}
		// snapshots of everybody before the step
		before := map[*trie]string{}
		for _, t := range open {
			before[t] = snapshot(t)
		}
		k := gen.Pct(rt, "step")
		var actor *trie // the trie whose state may legitimately change
		var st step
		switch {
		case len(children) == 0 || (k < 22 && len(children) < 5):
			parent := w.block
			if len(children) > 0 && gen.Chance(rt, 20, "grand") {
				parent = gen.Pick(rt, children, "gparent")
				grand = true
			}
			c := newChild(w, parent)
			st = step{Kind: "open", Trie: parent.name, Child: c.name}
			// children are often opened in pairs
			if len(w.openTries()) <= 5 && gen.Chance(rt, 50, "pair") {
				w.steps = append(w.steps, st)
				c2 := newChild(w, parent)
				st = step{Kind: "open", Trie: parent.name, Child: c2.name}
			}
		case k < 72: // operation inside a child
			c := gen.Pick(rt, children, "who")
			actor = c
			rootBefore := append([]byte(nil), c.mpt.GetRoot()...)
			markKids := func() {
				if !bytes.Equal(rootBefore, c.mpt.GetRoot()) {
					w.markStale(c) // the child's own children now sit on a parent that moved on
				}
			}
			var p string
			live := mptkit.SortedKeys(c.model)
			del := len(live) > 0 && gen.Chance(rt, 55, "del")
			if del {
				p = gen.Pick(rt, live, "dk")
				refs := append([]string{}, touchedByMerged...)
				for _, o := range children {
					if o != c {
						refs = append(refs, o.touched...)
					}
				}
				var forks []string
				for _, q := range nestForks {
					if _, ok := c.model[q]; ok {
						forks = append(forks, q)
					}
				}
				if len(forks) > 0 && gen.Chance(rt, 30, "delfork") {
					// the early fork of a nested triple: its removal leaves a one-child branch between two extensions
					p = gen.Pick(rt, forks, "forkkey")
				} else if len(refs) > 0 && gen.Chance(rt, 60, "near") {
					// the live key sharing the longest prefix with a key that an open sibling or an earlier merged sibling touched
					ref := gen.Pick(rt, refs, "ref")
					best, bl := p, -1
					for _, q := range live {
						if q == ref {
							continue
						}
						l := 0
						for l < len(q) && l < len(ref) && q[l] == ref[l] {
							l++
						}
						if l > bl {
							best, bl = q, l
						}
					}
					p = best
				}
				st = step{Kind: "del", Trie: c.name, Path: p}
				_, err := c.mpt.Delete(util.Path(p))
				if err != nil {
					if !c.stale {
						w.steps = append(w.steps, st)
						w.failf("%s.Delete(%q): %v", c.name, p, err)
					}
					c.model = nil // a stale child that failed: its own view is no longer constrained
				} else if c.model != nil {
					delete(c.model, p)
				}
				c.didDelete = true
				c.touched = append(c.touched, p)
				if mergedCount > 0 {
					lateDelete = true
				}
			} else {
				p = mptkit.GenPath(rt, append(append([]string{}, used...), live...), 3, "ip")
				if len(c.plan) > 0 {
					p, c.plan = c.plan[0], c.plan[1:]
				} else if gen.Chance(rt, 12, "nest") {
					// a nested-prefix triple inserted by one trie: A, then B leaving A early (the split creates an
					// extension above a two-child branch), then C leaving A late (A's side becomes extension/branch)
					a := mptkit.GenFixedPath(rt, gen.Uniform(rt, 2, 4, "nestlen"), "nesta")
					early := gen.Uniform(rt, 1, len(a)/2, "nestearly")
					late := gen.Uniform(rt, len(a)/2+1, len(a)-1, "nestlate")
					flip := func(q string, j int, d int) string {
						const hexd = "0123456789abcdef"
						n := hexd[(strings.IndexByte(hexd, q[j])+d)%16]
						return q[:j] + string(n) + q[j+1:]
					}
					b := flip(a, early, 1+gen.Uniform(rt, 0, 13, "nestbd"))
					if gen.Chance(rt, 50, "nestbtail") {
						b = b[:early+1] + mptkit.GenFixedPath(rt, 4, "nestbt")[:len(a)-early-1]
					}
					p, c.plan = a, []string{b, flip(a, late, 1+gen.Uniform(rt, 0, 13, "nestcd"))}
					nestForks = append(nestForks, b)
					nested = true
				}
				v := mptkit.GenValue(rt, "iv")
				st = step{Kind: "ins", Trie: c.name, Path: p, Val: fmt.Sprintf("%x", v)}
				_, err := mptkit.InsertReused(c.mpt, p, v)
				if err != nil {
					if !c.stale {
						w.steps = append(w.steps, st)
						w.failf("%s.Insert(%q): %v", c.name, p, err)
					}
					c.model = nil
				} else if c.model != nil {
					c.model[p] = v
				}
				used = append(used, p)
				c.touched = append(c.touched, p)
			}
			markKids()
		case k < 90: // merge
			c := gen.Pick(rt, children, "mwho")
			hasOpenKids := false
			for _, t := range children {
				if t.parent == c {
					hasOpenKids = true
				}
			}
			p := c.parent
			sameRoot := bytes.Equal(p.mpt.GetRoot(), c.startRoot)
			if hasOpenKids || (c.stale && sameRoot) || (c.stale && c.model == nil && sameRoot) {
				// construction instead of rejection: such a child is discarded
				st = step{Kind: "discard", Child: c.name}
				for _, t := range children {
					if w.descendantOf(t, c) {
						t.open = false
					}
				}
				discarded = true
				break
			}
			commit := gen.Chance(rt, 50, "commit")
			// the child's transaction cache is committed after the merge (as the chain does) or, less often, before it
			commitFirst := commit && !c.stale && gen.Chance(rt, 30, "commitfirst")
			st = step{Kind: "merge", Trie: p.name, Child: c.name, Flag: commit}
			if !c.stale && c.model != nil {
				w.checkView(c, "before merge of "+c.name)
			}
			actor = p
			if commitFirst {
				c.mpt.Cache().Commit()
				cacheCommitted = true
				commit = false
				st.Kind = "commit-cache+merge"
			}
			// the merge goes through MergeMPTChanges or, a third of the time, through the by-value entry point
			var err error
			if gen.Chance(rt, 33, "byvalue") {
				r, ch, dl, sr := c.mpt.GetChanges()
				err = p.mpt.MergeChanges(r, ch, dl, sr)
				byValue = true
				st.Kind += "(by value)"
			} else {
				err = p.mpt.MergeMPTChanges(c.mpt)
			}
			childRoot := c.mpt.GetRoot()
			if c.stale {
				// parent moved on: must be rejected unless the child changed nothing relative to the parent's current root
				if err == nil && !bytes.Equal(childRoot, p.mpt.GetRoot()) {
					w.steps = append(w.steps, st)
					w.failf("merge of stale %s accepted", c.name)
				}
				if err == nil && before[p] != snapshot(p) {
					w.steps = append(w.steps, st)
					w.failf("no-op merge of %s changed %s", c.name, p.name)
				}
				if err != nil {
					staleRejected = true
					if before[p] != snapshot(p) {
						w.steps = append(w.steps, st)
						w.failf("rejected merge of stale %s changed %s:%s", c.name, p.name, diff(before[p], snapshot(p)))
					}
				}
				actor = nil
			} else {
				if err != nil {
					w.steps = append(w.steps, st)
					w.failf("merge of %s into %s: %v", c.name, p.name, err)
				}
				if !bytes.Equal(p.mpt.GetRoot(), childRoot) {
					w.steps = append(w.steps, st)
					w.failf("after merge %s root %x, child root %x", p.name, p.mpt.GetRoot(), childRoot)
				}
				changed := !bytes.Equal(childRoot, c.startRoot)
				p.model = mptkit.CopyContent(c.model)
				if changed {
					w.markStale(p)
					c.stale = false
				}
				if p == w.block {
					mergedCount++
					for q := range c.model {
						touchedByMerged = append(touchedByMerged, q)
					}
					sort.Strings(touchedByMerged)
				}
				if commit {
					c.mpt.Cache().Commit()
					cacheCommitted = true
				} else {
					cacheNot = true
				}
			}
			c.open = false
		default: // discard
			c := gen.Pick(rt, children, "dwho")
			st = step{Kind: "discard", Child: c.name}
			c.open = false
			for _, t := range children {
				if w.descendantOf(t, c) {
					t.open = false
				}
			}
			discarded = true
		}
		w.steps = append(w.steps, st)
		when := "after " + st.String()
		// a reader with its own cold node cache walks one of the open tries (a query on pending state): reading changes nothing
		if cands := w.openTries(); gen.Chance(rt, 12, "coldreader") {
			t := gen.Pick(rt, cands, "coldwho")
			if !t.stale && t.model != nil {
				w.steps = append(w.steps, step{Kind: "cold-read", Trie: t.name})
				when += ", cold reader on " + t.name
				got, err := mptkit.Content(util.CloneMPT(t.mpt))
				if err != nil || !mptkit.EqualContent(got, t.model) {
					w.failf("%s: a cold clone of %s iterates to %s (%v), model %s", when, t.name, mptkit.Show(got), err, mptkit.Show(t.model))
				}
				coldReads = true
			}
		}

		// (1) nobody else changed
		for _, t := range open {
			if t == actor || !t.open && t != w.block {
				continue
			}
			if strings.Contains(st.Kind, "merge") && t.name == st.Child {
				continue
			}
			if t.stale {
				continue // nothing is promised about a trie whose parent moved on
			}
			if now := snapshot(t); now != before[t] {
				w.failf("%s: %s changed although it was not operated on:%s", when, t.name, diff(before[t], now))
			}
		}
		// (2) the block reads its model after every step; a child's view is read only as a drawn action
		// (reading fills the child's node cache with deep copies and thereby hides store-level sharing)
		w.checkView(w.block, when)
		if cs := w.openTries()[1:]; len(cs) > 0 && gen.Chance(rt, 15, "readview") {
			t := gen.Pick(rt, cs, "readwho")
			if !t.stale && t.model != nil {
				w.steps = append(w.steps, step{Kind: "read", Trie: t.name})
				w.checkView(t, when+" (read "+t.name+")")
			}
		}
		// (5) block root resolves from base + pending changes
		w.checkBlockResolvable(when)
	}
	// closing: everything still open and non-stale merges cleanly in opening order (children of the block only)
	for _, c := range w.openTries()[1:] {
		if c.parent == w.block && !c.stale && c.model != nil {
			hasKids := false
			for _, t := range w.openTries() {
				if t.parent == c {
					hasKids = true
				}
			}
			if hasKids {
				continue
			}
			st := step{Kind: "merge", Trie: "block", Child: c.name, Flag: false}
			w.steps = append(w.steps, st)
			if err := w.block.mpt.MergeMPTChanges(c.mpt); err != nil {
				w.failf("final merge of %s: %v", c.name, err)
			}
			if !bytes.Equal(c.mpt.GetRoot(), c.startRoot) {
				w.markStale(w.block)
			}
			w.block.model = mptkit.CopyContent(c.model)
			c.open = false
			w.checkView(w.block, "after final merge of "+c.name)
			w.checkBlockResolvable("after final merge of " + c.name)
		}
	}
	nt := overlap && lateDelete && (discarded || staleRejected)
	var cls []string
	add := func(b bool, s string) {
		if b {
			cls = append(cls, s)
		}
	}
	add(overlap, "overlap")
	add(staleRejected, "stale-rejected")
	add(discarded, "discarded")
	add(cacheCommitted, "cache-committed")
	add(cacheNot, "cache-not-committed")
	add(grand, "grand-child")
	add(lateDelete, "delete-after-sibling-merge")
	add(nested, "nested-prefix-triple")
	add(byValue, "merge-by-value")
	add(coldReads, "cold-reader")
	add(mergedCount >= 2, "two-merges")
	var sb strings.Builder
	fmt.Fprintf(&sb, "%v|", w.genesis)
	for _, s := range w.steps {
		sb.WriteString(s.String())
		sb.WriteByte(';')
	}
	ev.Case(sb.String(), nt, cls...)
	if nt && ev.WantSample() {
		ev.Sample(map[string]any{"genesis": w.genesis, "steps": w.steps})
	}
}

var _ = errors.Is

// Medium scale: one child transaction rewrites, deletes and adds dozens of keys of a block state of 60..160 keys
// (its merge hands over well above 64 replaced nodes), a second child follows; a sibling opened before the first merge
// is discarded.
func TestMediumMerge(t *testing.T) {
	ev.Rapid(t, 6, 60)
	rapid.Check(t, func(rt *rapid.T) {
		base := util.NewMemoryNodeDB()
		nkeys := gen.Uniform(rt, 60, 160, "nkeys")
		key := func(i int) string { return fmt.Sprintf("%02x%02x%02x", (i*37)%256, (i*11)%256, i%256) }
		model := map[string][]byte{}
		g := mptkit.NewTrie(base, 1, nil)
		for i := 0; i < nkeys; i++ {
			v := []byte(fmt.Sprintf("old-%d", i))
			if _, err := g.Insert(util.Path(key(i)), mptkit.Val(v)); err != nil {
				rt.Fatalf("HARNESS: %v", err)
			}
			model[key(i)] = v
		}
		sc := statecache.NewStateCache()
		bc := statecache.NewBlockCache(sc, statecache.Block{Round: 2, Hash: "b2", PrevHash: "b1"})
		version := int64(gen.Pick(rt, []int{1, 2}, "version"))
		block := util.NewMerklePatriciaTrie(util.NewLevelNodeDB(util.NewMemoryNodeDB(), base, false), util.Sequence(version), g.GetRoot(), statecache.NewTransactionCache(bc))
		child := func() *util.MerklePatriciaTrie {
			return util.NewMerklePatriciaTrie(util.NewLevelNodeDB(util.NewMemoryNodeDB(), block.GetNodeDB(), false), block.GetVersion(), block.GetRoot(), statecache.NewTransactionCache(bc))
		}
		checkBlock := func(when string) {
			got, err := mptkit.Content(block)
			if err != nil || !mptkit.EqualContent(got, model) {
				rt.Fatalf("%s: the block reads %d pairs (%v), the model has %d; first difference: %s", when, len(got), err, len(model), firstDiff(got, model))
			}
			cold, err := mptkit.Content(util.CloneMPT(block))
			if err != nil || !mptkit.EqualContent(cold, model) {
				rt.Fatalf("%s: a cold clone of the block reads %d pairs (%v), the model has %d; first difference: %s", when, len(cold), err, len(model), firstDiff(cold, model))
			}
			if want := refmpt.Root(model, version); version == 1 && !bytes.Equal(block.GetRoot(), want) {
				rt.Fatalf("%s: block root %x, reference root of its content %x", when, block.GetRoot(), want)
			}
		}
		sibling := child()
		if _, err := sibling.Insert(util.Path("ffeedd"), mptkit.Val([]byte("never merged"))); err != nil {
			rt.Fatalf("HARNESS: %v", err)
		}
		for round := 0; round < 2; round++ {
			c := child()
			cm := mptkit.CopyContent(model)
			nops := gen.Uniform(rt, 50, 120, "nops")
			if round == 1 {
				nops = gen.Uniform(rt, 1, 70, "nops2")
			}
			for i := 0; i < nops; i++ {
				k := key(gen.Uniform(rt, 0, nkeys+20, "k"))
				if _, live := cm[k]; live && gen.Chance(rt, 20, "del") {
					if _, err := c.Delete(util.Path(k)); err != nil {
						rt.Fatalf("child delete %q: %v", k, err)
					}
					delete(cm, k)
					continue
				}
				v := []byte(fmt.Sprintf("new-%d-%d", round, i))
				if _, err := c.Insert(util.Path(k), mptkit.Val(v)); err != nil {
					rt.Fatalf("child insert %q: %v", k, err)
				}
				cm[k] = v
			}
			var err error
			if gen.Chance(rt, 33, "byvalue") {
				r, ch, dl, sr := c.GetChanges()
				err = block.MergeChanges(r, ch, dl, sr)
			} else {
				err = block.MergeMPTChanges(c)
			}
			if err != nil {
				rt.Fatalf("merge of a child with %d operations: %v", nops, err)
			}
			if !bytes.Equal(block.GetRoot(), c.GetRoot()) {
				rt.Fatalf("after merging a child with %d operations the block root is %x, the child's %x", nops, block.GetRoot(), c.GetRoot())
			}
			model = cm
			if gen.Chance(rt, 50, "commitcache") {
				c.Cache().Commit()
			}
			checkBlock(fmt.Sprintf("after merge %d (%d operations)", round+1, nops))
		}
		// the sibling opened before the merges is stale now: its merge must be refused and change nothing
		rootBefore := append([]byte(nil), block.GetRoot()...)
		if err := block.MergeMPTChanges(sibling); err == nil {
			rt.Fatalf("merge of a sibling opened before two merges was accepted")
		}
		if !bytes.Equal(rootBefore, block.GetRoot()) {
			rt.Fatalf("a refused merge changed the block root")
		}
		checkBlock("after the refused merge of the stale sibling")
		ev.Case(fmt.Sprintf("medium/%d/%d", nkeys, version), true, "medium-scale-merge")
	})
}

func firstDiff(got, want map[string][]byte) string {
	for _, k := range mptkit.SortedKeys(want) {
		if g, ok := got[k]; !ok || !bytes.Equal(g, want[k]) {
			return fmt.Sprintf("%q reads %q, want %q", k, g, want[k])
		}
	}
	for _, k := range mptkit.SortedKeys(got) {
		if _, ok := want[k]; !ok {
			return fmt.Sprintf("%q reads %q, want absent", k, got[k])
		}
	}
	return ""
}

// One block, several children one after another: the first creates a small content, each later one takes a live key
// away, puts it back with the value it had, changes something else, and is merged. After every merge the block (warm
// and through a cold clone) reads the model. What a child records about nodes it replaced and re-created must not, in
// whatever order the merge applies it, remove a node the result needs.
func TestRemoveAndPutBackAcrossChildren(t *testing.T) {
	ev.Rapid(t, 500, 8000)
	rapid.Check(t, func(rt *rapid.T) {
		base := util.NewMemoryNodeDB()
		sc := statecache.NewStateCache()
		bc := statecache.NewBlockCache(sc, statecache.Block{Round: 1, Hash: "b1"})
		version := int64(gen.Pick(rt, []int{0, 1, 2}, "version"))
		// half of the time the block state is itself the child of a state above it, into which it is merged at the end
		var top *util.MerklePatriciaTrie
		block := util.NewMerklePatriciaTrie(util.NewLevelNodeDB(util.NewMemoryNodeDB(), base, false), util.Sequence(version), nil, statecache.NewTransactionCache(bc))
		if gen.Chance(rt, 50, "threelevels") {
			top = block
			block = util.NewMerklePatriciaTrie(util.NewLevelNodeDB(util.NewMemoryNodeDB(), top.GetNodeDB(), false), top.GetVersion(), top.GetRoot(), statecache.NewTransactionCache(bc))
		}
		child := func() *util.MerklePatriciaTrie {
			return util.NewMerklePatriciaTrie(util.NewLevelNodeDB(util.NewMemoryNodeDB(), block.GetNodeDB(), false), block.GetVersion(), block.GetRoot(), statecache.NewTransactionCache(bc))
		}
		model := map[string][]byte{}
		var used []string
		var log []string
		check := func(when string) {
			for name, tr := range map[string]*util.MerklePatriciaTrie{"the block": block, "a cold clone of the block": util.CloneMPT(block)} {
				got, err := mptkit.Content(tr)
				if err != nil || !mptkit.EqualContent(got, model) {
					rt.Fatalf("%s: %s reads %s (%v), the model is %s\nsteps: %v", when, name, mptkit.Show(got), err, mptkit.Show(model), log)
				}
			}
			if want := refmpt.Root(model, version); !bytes.Equal(block.GetRoot(), want) {
				rt.Fatalf("%s: block root %x, reference root of its content %x\nsteps: %v", when, block.GetRoot(), want, log)
			}
		}
		first := child()
		ops := mptkit.GenOpsP(rt, model, &used, gen.Uniform(rt, 3, 10, "nfirst"), 3, 10, "first")
		if err := mptkit.Apply(first, ops); err != nil {
			rt.Fatalf("HARNESS: %v", err)
		}
		log = append(log, fmt.Sprintf("child 0: %v", ops))
		if err := block.MergeMPTChanges(first); err != nil {
			rt.Fatalf("merge of the first child: %v", err)
		}
		check("after the first merge")
		putBacks := 0
		// a key that the first child created with value hv1 (new in this block)
		hk, hstep := "", 0
		var hv1 []byte
		if ks := mptkit.SortedKeys(model); len(ks) > 0 {
			hk = gen.Pick(rt, ks, "historykeypick")
			hv1 = append([]byte(nil), model[hk]...)
		}
		for ci := 1; ci <= gen.Uniform(rt, 1, 5, "nchildren"); ci++ {
			c := child()
			live := mptkit.SortedKeys(model)
			if len(live) == 0 {
				break
			}
			k := gen.Pick(rt, live, "putback")
			if hk != "" && gen.Chance(rt, 60, "historykey") {
				// one key's history over several children: new value, another value, gone, back with the first value
				step := "v1"
				if cur, isLive := model[hk]; isLive && bytes.Equal(cur, hv1) {
					step = "v2"
				} else if isLive {
					step = "gone"
				}
				hstep++
				var err error
				switch step {
				case "v2":
					model[hk] = []byte{0x22, byte(hstep)}
					_, err = mptkit.InsertReused(c, hk, model[hk])
				case "gone":
					delete(model, hk)
					_, err = c.Delete(util.Path(hk))
				default:
					model[hk] = append([]byte(nil), hv1...)
					_, err = mptkit.InsertReused(c, hk, hv1)
				}
				if err != nil {
					rt.Fatalf("child %d: %s of %q: %v", ci, step, hk, err)
				}
				log = append(log, fmt.Sprintf("child %d: key %q %s", ci, hk, step))
				if err := block.MergeMPTChanges(c); err != nil {
					rt.Fatalf("merge of child %d: %v\nsteps: %v", ci, err, log)
				}
				check(fmt.Sprintf("after the merge of child %d", ci))
				putBacks++
				continue
			}
			if _, err := c.Delete(util.Path(k)); err != nil {
				rt.Fatalf("child %d: delete %q: %v", ci, k, err)
			}
			if _, err := mptkit.InsertReused(c, k, model[k]); err != nil {
				rt.Fatalf("child %d: put back %q: %v", ci, k, err)
			}
			other := mptkit.GenOpsP(rt, model, &used, gen.Uniform(rt, 1, 2, "nother"), 3, 25, fmt.Sprintf("other%d", ci))
			if err := mptkit.Apply(c, other); err != nil {
				rt.Fatalf("HARNESS: %v", err)
			}
			log = append(log, fmt.Sprintf("child %d: del(%q) ins(%q, same value) %v", ci, k, k, other))
			putBacks++
			if err := block.MergeMPTChanges(c); err != nil {
				rt.Fatalf("merge of child %d: %v\nsteps: %v", ci, err, log)
			}
			check(fmt.Sprintf("after the merge of child %d", ci))
		}
		if top != nil {
			// the block state goes into the state above it: that one reads the same content, warm and cold
			if err := top.MergeMPTChanges(block); err != nil {
				rt.Fatalf("merge of the block state into the state above it: %v\nsteps: %v", err, log)
			}
			block = top
			check("after the block state was merged into the state above it")
		}
		ev.Case(fmt.Sprint(log), putBacks >= 1, "remove-and-put-back-across-children")
	})
}

// TestFirstTouchOfDiscardedChild: the parent holds, still pending, nodes that an insert made by SPLITTING a longer extension
// (so their paths are slices of one key buffer); children whose very first operation works on such a node (their node
// cache is cold, they receive the parent's own objects) are discarded. The parent's root, pending changes and deletes are
// the same afterwards, and its saved state reads the model.
func TestFirstTouchOfDiscardedChild(t *testing.T) {
	ev.Rapid(t, 1500, 12000)
	rapid.Check(t, func(rt *rapid.T) {
		base := util.NewMemoryNodeDB()
		version := int64(gen.Pick(rt, []int{0, 1, 2}, "version"))
		nb := gen.Pick(rt, []int{3, 4, 6}, "stembytes")
		stem := mptkit.GenFixedPath(rt, nb, "stem")
		// genesis: two or three keys that differ from the stem at one late position (a long common extension over a branch)
		model := map[string][]byte{}
		var log []string
		var gops []mptkit.Op
		late := gen.Uniform(rt, len(stem)-3, len(stem)-1, "late")
		twin := func(pos int, label string) string {
			nib := "0123456789abcdef"[gen.Uniform(rt, 0, 15, label)]
			if nib == stem[pos] {
				nib = "123456789abcdef0"[strings.IndexByte("0123456789abcdef", nib)]
			}
			return stem[:pos] + string(nib) + stem[pos+1:]
		}
		for i := gen.Uniform(rt, 1, 2, "ntwins"); i > 0; i-- {
			k := twin(late, "gt")
			v := mptkit.GenValue(rt, "gv")
			gops = append(gops, mptkit.Op{Kind: "ins", Path: k, Val: fmt.Sprintf("%x", v)})
			model[k] = v
		}
		v := mptkit.GenValue(rt, "gv")
		gops = append(gops, mptkit.Op{Kind: "ins", Path: stem, Val: fmt.Sprintf("%x", v)})
		model[stem] = v
		g := mptkit.NewTrie(base, version, nil)
		if err := mptkit.Apply(g, gops); err != nil {
			rt.Fatalf("HARNESS: genesis %v: %v", gops, err)
		}
		log = append(log, fmt.Sprintf("genesis: %v", gops))
		if gen.Chance(rt, 60, "newversion") {
			version++
		}
		sc := statecache.NewStateCache()
		bc := statecache.NewBlockCache(sc, statecache.Block{Round: version, Hash: "block", PrevHash: "prev"})
		block := &trie{name: "block"}
		block.mpt = util.NewMerklePatriciaTrie(util.NewLevelNodeDB(util.NewMemoryNodeDB(), base, false), util.Sequence(version), g.GetRoot(), statecache.NewTransactionCache(bc))
		child := func() *util.MerklePatriciaTrie {
			return util.NewMerklePatriciaTrie(util.NewLevelNodeDB(util.NewMemoryNodeDB(), block.mpt.GetNodeDB(), false), block.mpt.GetVersion(), block.mpt.GetRoot(), statecache.NewTransactionCache(bc))
		}
		// the splitting insert: a key that leaves the stem early; made by the block state itself or by a merged child
		early := gen.Uniform(rt, 0, late-2, "early")
		K := twin(early, "kt")
		if gen.Chance(rt, 80, "othertail") {
			// the rest of the key differs from the stem as well (a twin would be overwritten with its own nibbles)
			tail := []byte(K[early+1:])
			for i := range tail {
				tail[i] = "0123456789abcdef"[gen.Uniform(rt, 0, 15, "tailnib")]
			}
			K = K[:early+1] + string(tail)
		}
		kv := mptkit.GenValue(rt, "kv")
		direct := gen.Chance(rt, 50, "direct")
		ins := block.mpt
		if !direct {
			ins = child()
		}
		if _, err := mptkit.InsertReused(ins, K, kv); err != nil {
			rt.Fatalf("insert %q: %v\n%v", K, err, log)
		}
		model[K] = kv
		if !direct {
			if gen.Chance(rt, 50, "commitcache") {
				ins.Cache().Commit()
			}
			if err := block.mpt.MergeMPTChanges(ins); err != nil {
				rt.Fatalf("merge of the inserting child: %v\n%v", err, log)
			}
		}
		log = append(log, fmt.Sprintf("insert %q (direct: %v)", K, direct))
		before := snapshot(block)
		firstDeletes := 0
		for ci := gen.Uniform(rt, 1, 3, "nchildren"); ci > 0; ci-- {
			c := child()
			cm := mptkit.CopyContent(model)
			var used []string
			for k := range cm {
				used = append(used, k)
			}
			sort.Strings(used)
			if gen.Chance(rt, 70, "firstdel") {
				if _, err := c.Delete(util.Path(K)); err != nil {
					rt.Fatalf("discarded child: delete %q: %v\n%v", K, err, log)
				}
				delete(cm, K)
				firstDeletes++
				log = append(log, fmt.Sprintf("discarded child: first operation del(%q)", K))
			}
			ops := mptkit.GenOpsP(rt, cm, &used, gen.Uniform(rt, 0, 3, "nmore"), nb, 50, fmt.Sprintf("more%d", ci))
			if err := mptkit.Apply(c, ops); err != nil {
				rt.Fatalf("HARNESS: %v", err)
			}
			log = append(log, fmt.Sprintf("discarded child: %v", ops))
			if got, err := mptkit.Content(c); err != nil || !mptkit.EqualContent(got, cm) {
				rt.Fatalf("discarded child reads %s (%v), its model %s\n%v", mptkit.Show(got), err, mptkit.Show(cm), log)
			}
			if after := snapshot(block); after != before {
				rt.Fatalf("a child that was never merged changed the parent's root or pending changes:%s\n%v", diff(before, after), log)
			}
		}
		// the parent's pending changes are saved: the store alone reads the model at the parent's root
		if err := block.mpt.SaveChanges(context.Background(), base, false); err != nil {
			rt.Fatalf("SaveChanges: %v\n%v", err, log)
		}
		got, err := mptkit.Content(mptkit.NewTrie(base, version, block.mpt.GetRoot()))
		if err != nil || !mptkit.EqualContent(got, model) {
			rt.Fatalf("after saving the parent's changes the store reads %s (%v), the model is %s\n%v", mptkit.Show(got), err, mptkit.Show(model), log)
		}
		ev.Case(fmt.Sprint(log), firstDeletes >= 1, "first-touch-of-discarded-child", fmt.Sprintf("split-insert-direct:%v", direct))
	})
}
