package c03

import (
	"context"
	"fmt"
	"testing"

	"github.com/0chain/common/core/statecache"
	"github.com/0chain/common/core/util"

	"verif/harness/internal/ev"
	"verif/harness/internal/mptkit"
	"verif/harness/internal/refmpt"
)

// aliasWitness: a merged sibling leaves an extension whose path slice has spare
// capacity; two simultaneously open siblings each delete a different key right
// below it; one is merged, the other discarded.
func aliasWitness() string {
	base := util.NewMemoryNodeDB()
	g := mptkit.NewTrie(base, 0, nil)
	for _, p := range []string{"a0b1", "a0b2", "a1cc"} {
		if _, err := g.Insert(util.Path(p), mptkit.Val([]byte(p))); err != nil {
			return err.Error()
		}
	}
	sc := statecache.NewStateCache()
	bc := statecache.NewBlockCache(sc, statecache.Block{Round: 1, Hash: "b", PrevHash: "p"})
	block := util.NewMerklePatriciaTrie(util.NewLevelNodeDB(util.NewMemoryNodeDB(), base, false), 1, g.GetRoot(), statecache.NewTransactionCache(bc))
	open := func() *util.MerklePatriciaTrie {
		return util.NewMerklePatriciaTrie(util.NewLevelNodeDB(util.NewMemoryNodeDB(), block.GetNodeDB(), false), block.GetVersion(), block.GetRoot(), statecache.NewTransactionCache(bc))
	}
	t1 := open()
	if _, err := t1.Delete(util.Path("a1cc")); err != nil {
		return err.Error()
	}
	if err := block.MergeMPTChanges(t1); err != nil { // t1's cache is not committed
		return err.Error()
	}
	t2, t3 := open(), open()
	if _, err := t2.Delete(util.Path("a0b2")); err != nil {
		return err.Error()
	}
	if _, err := t3.Delete(util.Path("a0b1")); err != nil { // will be discarded
		return err.Error()
	}
	if err := block.MergeMPTChanges(t2); err != nil {
		return err.Error()
	}
	raw := map[string][]byte{}
	_ = base.Iterate(context.Background(), func(_ context.Context, key util.Key, node util.Node) error {
		raw[string(key)] = node.Encode()
		return nil
	})
	_, changes, _, _ := block.GetChanges()
	for _, c := range changes {
		n, err := refmpt.Parse(c.New.Encode())
		if err != nil {
			return "pending node does not parse"
		}
		raw[string(refmpt.Hash(n))] = c.New.Encode()
	}
	w := refmpt.WalkFrom(block.GetRoot(), mptkit.GetterOfMap(raw), false)
	if len(w.Missing) > 0 || len(w.Problems) > 0 || string(w.Content["a0b1"]) != "a0b1" || len(w.Content) != 1 {
		return fmt.Sprintf("genesis a0b1,a0b2,a1cc; t1 del a1cc merged; t2,t3 open; t2 del a0b2; t3 del a0b1; merge t2, discard t3: block root does not resolve to {a0b1} (missing %d, content %s)", len(w.Missing), mptkit.Show(w.Content))
	}
	return ""
}

func TestWitnesses(t *testing.T) {
	ev.Witness(t, "C03-sibling-append-aliasing", aliasWitness)
}
