// C15 — decoders reject malformed bytes without crashing.
package c15

import (
	"bytes"
	"encoding/binary"
	"encoding/hex"
	"fmt"
	"golang.org/x/crypto/sha3"
	"os"
	"sort"
	"strings"
	"sync"
	"sync/atomic"
	"testing"
	"time"
	"verif/harness/internal/refmpt"

	"github.com/0chain/common/core/util"
	"github.com/0chain/common/core/util/wmpt"
	"github.com/fxamacker/cbor/v2"
	"pgregory.net/rapid"

	"verif/harness/internal/ev"
	"verif/harness/internal/gen"
	"verif/harness/internal/mptkit"
	"verif/harness/internal/wmkit"
)

func TestMain(m *testing.M) {
	ev.SetMeta(ev.Meta{
		Property: "C15", Level: "exploration",
		Rule: "four decode targets (util.CreateNode, wmpt.DeserializeNode, WeightedMerkleTrie.Deserialize, WeightedMerkleTrie.VerifyBlockProof). Inputs: real encodings harvested from rapid-generated tries (state-trie nodes of every kind, weighted-trie nodes, path exports, block proofs) with 1..3 structural mutations: truncate at any offset, an element of a path export or proof turned into a record of another kind (empty node, hash reference, value, no kind, two kinds, a copy of another element), delete or duplicate a separator, set the type byte to 0..15 or 255, inflate a CBOR length head, splice two encodings, hand-built branch records with child blobs of every length 0..80 and more than 16 children, 65+ or odd numbers of hex digits in a branch child slot, CBOR nulls in element lists, random byte edits; plus short arbitrary byte strings. " +
			"Oracle: no panic, the call returns promptly (a decode slower than 20 s is re-run three times before it counts), and whatever is accepted re-encodes (Encode/Serialize/CalcHash/Root/GetHash) without panicking. Errors are the expected outcome. " +
			"Non-trivial = the input differs from every valid encoding it was derived from and got past the decoder's first validation step (type dispatch / CBOR well-formedness); distinct = distinct (target, input bytes).",
		Assumptions: []string{"inputs are at most 64 KiB"},
	})
	go watchdog()
	ev.Main(m)
}

type fataler interface{ Fatalf(string, ...any) }

// A decode that never returns cannot be timed from the inside: the call in flight is published here and a watchdog
// goroutine (started by TestMain) reports it once it has been running for hangLimit. The limit is far above anything
// an honest decode of a few kilobytes needs on a loaded machine (they take microseconds); what it catches is a loop
// that does not terminate. The report is a replay file (TestReplayInput) and exit status 1.
type inflight struct {
	Target string `json:"target"`
	Block  uint64 `json:"block"`
	Input  string `json:"input_hex"`
	start  time.Time
}

const hangLimit = 90 * time.Second

var current atomic.Pointer[inflight]
var verifyBlock atomic.Uint64

func watchdog() {
	for {
		time.Sleep(time.Second)
		if c := current.Load(); c != nil && time.Since(c.start) > hangLimit {
			fmt.Printf("--- FAIL: %s has not returned after %v on %d bytes: %s\n", c.Target, hangLimit, len(c.Input)/2, c.Input)
			ev.WriteReplay("TestReplayInput", c)
			ev.Flush()
			os.Exit(1)
		}
	}
}

// TestReplayInput re-runs one recorded input (a hang or a slow decode reported by the watchdog).
func TestReplayInput(t *testing.T) {
	var c inflight
	if !ev.LoadReplay("TestReplayInput", &c) {
		return
	}
	in, _ := hex.DecodeString(c.Input)
	switch c.Target {
	case "util.CreateNode":
		tryCreateNode(t, in)
	case "wmpt.DeserializeNode":
		tryDeserializeNode(t, in)
	case "WeightedMerkleTrie.Deserialize":
		tryDeserializeTrie(t, in)
	default:
		tryVerify(t, c.Block, in)
	}
}

// guarded runs fn, converting a panic into a failure and applying the promptness rule.
func guarded(t fataler, target string, in []byte, fn func() (accepted bool, pastFirst bool)) (accepted, pastFirst bool) {
	run := func() (d time.Duration) {
		defer func() {
			current.Store(nil)
			if r := recover(); r != nil {
				t.Fatalf("%s panicked: %v\ninput (%d bytes): %x", target, r, len(in), in)
			}
		}()
		st := time.Now()
		current.Store(&inflight{Target: target, Block: verifyBlock.Load(), Input: hex.EncodeToString(in), start: st})
		accepted, pastFirst = fn()
		return time.Since(st)
	}
	if d := run(); d > 20*time.Second {
		slow := 1
		for i := 0; i < 3; i++ {
			if run() > 20*time.Second {
				slow++
			}
		}
		if slow == 4 {
			t.Fatalf("%s did not return within 20 s (four runs) on %d bytes: %x", target, len(in), in)
		}
	}
	return
}

func tryCreateNode(t fataler, in []byte) (bool, bool) {
	return guarded(t, "util.CreateNode", in, func() (bool, bool) {
		n, err := util.CreateNode(bytes.NewReader(in))
		past := len(in) > 0 && (in[0]&util.NodeTypesAll == 1 || in[0]&util.NodeTypesAll == 2 || in[0]&util.NodeTypesAll == 4 || in[0]&util.NodeTypesAll == 8)
		if err != nil || n == nil {
			return false, past
		}
		_ = n.Encode()
		_ = n.GetHash()
		_ = n.GetHashBytes()
		_ = n.CloneNode().Encode()
		_ = n.Clone()
		return true, past
	})
}

func tryDeserializeNode(t fataler, in []byte) (bool, bool) {
	return guarded(t, "wmpt.DeserializeNode", in, func() (bool, bool) {
		var probe wmpt.PersistNodeBase
		past := cbor.Unmarshal(in, &probe) == nil
		n, err := wmpt.DeserializeNode(in)
		if err != nil || n == nil {
			return false, past
		}
		_, _ = n.Serialize()
		_ = n.CalcHash()
		_ = n.Hash()
		_ = n.Weight()
		_ = n.Copy()
		_ = n.CopyRoot(0, 1)
		return true, past
	})
}

// receiver gives the trie object an input is decoded into. Which kind is a function of the input alone: a new trie,
// one whose root was set to nil, one that has just refused a proof, one that holds another trie already, or one that
// has loaded an export without elements.
var (
	fixtureOnce            sync.Once
	fixtureProof, fixtureX []byte
)

func receiver(in []byte) *wmpt.WeightedMerkleTrie {
	fixtureOnce.Do(func() {
		src := wmpt.New(nil, nil)
		keys := [][]byte{bytes.Repeat([]byte{0x11}, 32), bytes.Repeat([]byte{0x12}, 32), bytes.Repeat([]byte{0xa0}, 32)}
		for i, k := range keys {
			_ = src.Update(k, []byte{byte(i + 1), 7}, uint64(i+2))
		}
		_ = src.Root()
		_, fixtureProof, _ = src.GetBlockProof(1)
		fixtureX, _ = src.GetPath(keys[:2])
	})
	k := len(in)
	if len(in) > 0 {
		k += int(in[len(in)/2])
	}
	tr := wmpt.New(nil, nil)
	switch k % 5 {
	case 4:
		_ = tr.Deserialize([]byte{0x81, 0x80}) // an export without elements (what an empty trie exports)
	case 1:
		tr.SetRoot(nil)
	case 2:
		_, _, _ = tr.VerifyBlockProof(1<<62, fixtureProof) // a block beyond the weight: refused
	case 3:
		_ = tr.Deserialize(fixtureX)
	}
	return tr
}

func tryDeserializeTrie(t fataler, in []byte) (bool, bool) {
	return guarded(t, "WeightedMerkleTrie.Deserialize", in, func() (bool, bool) {
		var probe wmpt.PersistTrie
		past := cbor.Unmarshal(in, &probe) == nil
		tr := receiver(in)
		if err := tr.Deserialize(in); err != nil {
			return false, past
		}
		_ = tr.Root()
		_ = tr.Weight()
		if r := tr.GetRoot(); r != nil {
			_, _ = r.Serialize()
		}
		return true, past
	})
}

func tryVerify(t fataler, block uint64, in []byte) (bool, bool) {
	verifyBlock.Store(block)
	return guarded(t, "WeightedMerkleTrie.VerifyBlockProof", in, func() (bool, bool) {
		var probe wmpt.PersistTrie
		past := cbor.Unmarshal(in, &probe) == nil
		tr := receiver(in)
		h, _, err := tr.VerifyBlockProof(block, in)
		if err != nil {
			return false, past
		}
		_ = h
		_ = tr.Root()
		return true, past
	})
}

// ---------- harvesting real encodings ----------

type corpus struct {
	mptNodes  [][]byte
	wmNodes   [][]byte
	paths     [][]byte
	proofs    [][]byte
	proofBlks []uint64
}

func harvest(rt *rapid.T) *corpus {
	c := &corpus{}
	// state trie
	db := util.NewMemoryNodeDB()
	mpt := mptkit.NewTrie(db, int64(gen.Uniform(rt, 0, 3, "ver")), nil)
	model := map[string][]byte{}
	var used []string
	ops := mptkit.GenOpsP(rt, model, &used, gen.Uniform(rt, 2, 10, "nops"), 3, 15, "h")
	if err := mptkit.Apply(mpt, ops); err != nil {
		rt.Fatalf("HARNESS: %v", err)
	}
	for _, n := range db.Nodes {
		c.mptNodes = append(c.mptNodes, n.Encode())
	}
	sort.Slice(c.mptNodes, func(i, j int) bool { return bytes.Compare(c.mptNodes[i], c.mptNodes[j]) < 0 })
	vn := util.NewValueNode()
	vn.SetValue(mptkit.Val([]byte{1, ':', 2}))
	c.mptNodes = append(c.mptNodes, vn.Encode())
	// weighted trie
	var failure string
	m := wmkit.New(nil, func(f string, a ...any) { failure = fmt.Sprintf(f, a...) })
	pool := wmkit.GenKeyPool(rt, gen.Uniform(rt, 1, 8, "npool"))
	cnt := 0
	for i, k := range pool {
		m.Update(k, wmkit.GenValue(rt, i, &cnt, true))
	}
	if failure != "" {
		rt.Fatalf("HARNESS: %s", failure)
	}
	m.T.Root()
	total := m.T.Weight()
	for b := uint64(1); b <= total; b += 1 + total/4 {
		_, p, err := m.T.GetBlockProof(b)
		if err == nil {
			c.proofs = append(c.proofs, p)
			c.proofBlks = append(c.proofBlks, b)
			var pt wmpt.PersistTrie
			if cbor.Unmarshal(p, &pt) == nil {
				for _, pr := range pt.Pairs {
					c.wmNodes = append(c.wmNodes, pr.Value)
				}
			}
		}
	}
	nreq := gen.Uniform(rt, 0, len(pool), "nreq")
	if pth, err := m.T.GetPath(pool[:nreq]); err == nil {
		c.paths = append(c.paths, pth)
	}
	hn, _ := wmpt.NewHashNode(bytes.Repeat([]byte{7}, 32), 9).Serialize()
	c.wmNodes = append(c.wmNodes, hn)
	return c
}

// ---------- mutations ----------

func mutate(rt *rapid.T, in []byte, other []byte, label string) ([]byte, string) {
	b := append([]byte(nil), in...)
	if len(b) == 0 {
		return b, "empty"
	}
	switch gen.Pick(rt, []string{"truncate", "del-separator", "dup-separator", "type-byte", "inflate-length", "splice", "byte-edit", "hex-overflow", "odd-hex", "append-garbage", "null-elements"}, label+"kind") {
	case "truncate":
		return b[:gen.Uniform(rt, 0, len(b)-1, label+"at")], "truncate"
	case "del-separator":
		var idx []int
		for i, c := range b {
			if c == ':' {
				idx = append(idx, i)
			}
		}
		if len(idx) == 0 {
			return b, "none"
		}
		i := gen.Pick(rt, idx, label+"sep")
		return append(b[:i], b[i+1:]...), "del-separator"
	case "dup-separator":
		i := gen.Uniform(rt, 0, len(b)-1, label+"at")
		return append(append(append([]byte{}, b[:i]...), ':'), b[i:]...), "dup-separator"
	case "type-byte":
		b[0] = byte(gen.Pick(rt, []int{0, 1, 2, 3, 4, 5, 6, 7, 8, 9, 10, 11, 12, 13, 14, 15, 255, 16, 0x80}, label+"type"))
		return b, "type-byte"
	case "inflate-length":
		// bump a CBOR head byte (array/bytes/map lengths live in the low 5 bits) or turn it into a 4-byte length
		i := gen.Uniform(rt, 0, len(b)-1, label+"at")
		if gen.Chance(rt, 50, label+"big") {
			b[i] = b[i]&0xe0 | 0x1a // 32-bit length follows
		} else {
			b[i] += byte(gen.Uniform(rt, 1, 9, label+"d"))
		}
		return b, "inflate-length"
	case "splice":
		if len(other) == 0 {
			return b, "none"
		}
		i, j := gen.Uniform(rt, 0, len(b), label+"i"), gen.Uniform(rt, 0, len(other), label+"j")
		return append(append([]byte{}, b[:i]...), other[j:]...), "splice"
	case "byte-edit":
		for n := gen.Uniform(rt, 1, 4, label+"n"); n > 0; n-- {
			b[gen.Uniform(rt, 0, len(b)-1, label+"at")] = byte(gen.Uniform(rt, 0, 255, label+"v"))
		}
		return b, "byte-edit"
	case "hex-overflow":
		// 17 type/origin bytes, then an over-long first child slot
		if b[0] != 4 || len(b) < 18 {
			return b, "none"
		}
		n := gen.Uniform(rt, 65, 140, label+"n")
		return append(append(append([]byte{}, b[:17]...), bytes.Repeat([]byte("ab"), n/2+1)[:n]...), b[17:]...), "hex-overflow"
	case "odd-hex":
		if b[0] != 4 || len(b) < 18 {
			return b, "none"
		}
		return append(append(append([]byte{}, b[:17]...), "abc"...), b[17:]...), "odd-hex"
	case "append-garbage":
		return append(b, rapid.SliceOfN(rapid.Byte(), 1, 6).Draw(rt, label+"g")...), "append-garbage"
	default:
		// replace a byte by CBOR null
		b[gen.Uniform(rt, 0, len(b)-1, label+"at")] = 0xf6
		return b, "null-elements"
	}
}

// fieldMutate edits one field of one record inside a path export / proof (both are element lists of node records):
// hash fields of boundary lengths, emptied keys, resized child references, extra or missing children.
func fieldMutate(rt *rapid.T, in []byte, label string) ([]byte, string) {
	var pt wmpt.PersistTrie
	if cbor.Unmarshal(in, &pt) != nil || len(pt.Pairs) == 0 {
		return in, "none"
	}
	i := gen.Uniform(rt, 0, len(pt.Pairs)-1, label+"el")
	if pt.Pairs[i] == nil {
		return in, "none"
	}
	var n wmpt.PersistNodeBase
	if cbor.Unmarshal(pt.Pairs[i].Value, &n) != nil {
		return in, "none"
	}
	resize := func(b []byte) []byte {
		l := gen.Pick(rt, []int{0, 1, 31, 33, 39, 40, 41, 64, 65, 96, 97, 128, 129, 200, 1000}, label+"len")
		if gen.Chance(rt, 15, label+"biglen") {
			l = gen.Pick(rt, []int{2047, 2048, 4087, 4088, 4089, 4096, 5000, 16384, 65535, 65536, 70000}, label+"lenbig")
		}
		out := make([]byte, l)
		copy(out, b)
		return out
	}
	what := ""
	if gen.Chance(rt, 25, label+"kind") {
		// the element keeps its place but becomes a record of another kind (or of no kind, or of two kinds)
		ownHash := bytes.Repeat([]byte{7}, 32)
		switch {
		case n.Branch != nil && len(n.Branch.Hash) == 32:
			ownHash = n.Branch.Hash
		case n.Short != nil && len(n.Short.Hash) == 32:
			ownHash = n.Short.Hash
		case n.Value != nil && len(n.Value.Hash) == 32:
			ownHash = n.Value.Hash
		}
		var r wmpt.PersistNodeBase
		switch gen.Uniform(rt, 0, 5, label+"newkind") {
		case 0:
			r.NilNode = &wmpt.PersistNilNode{}
			what = "element-becomes-empty-node"
		case 1:
			r.HashNode = &wmpt.PersistHashNode{Hash: ownHash, Weight: uint64(gen.Uniform(rt, 0, 9, label+"hw"))}
			what = "element-becomes-hash-reference"
		case 2:
			r.Value = &wmpt.PersistNodeValue{Value: []byte{1, 2, 3}, Hash: ownHash, Weight: uint64(gen.Uniform(rt, 0, 9, label+"vw"))}
			what = "element-becomes-value"
		case 3:
			what = "element-of-no-kind"
		case 4:
			r = n
			r.NilNode = &wmpt.PersistNilNode{}
			what = "element-of-two-kinds"
		default:
			j := gen.Uniform(rt, 0, len(pt.Pairs)-1, label+"swap")
			if pt.Pairs[j] != nil && cbor.Unmarshal(pt.Pairs[j].Value, &r) == nil && j != i {
				what = "element-replaced-by-another-element"
			}
		}
		if what != "" {
			if b, err := cbor.Marshal(&r); err == nil {
				pt.Pairs[i].Value = b
				if out, err := cbor.Marshal(&pt); err == nil {
					return out, "record-kind:" + what
				}
			}
		}
		return in, "none"
	}
	switch {
	case n.Branch != nil:
		switch gen.Pick(rt, []int{0, 1, 2, 3, 4, 5, 6, 6, 6, 6, 7}, label+"bf") {
		case 7:
			if len(n.Branch.Hash) > 0 {
				n.Branch.Hash = append([]byte(nil), n.Branch.Hash...)
				n.Branch.Hash[gen.Uniform(rt, 0, len(n.Branch.Hash)-1, label+"hb")] ^= 1
				what = "branch-claimed-hash-bit"
			}
		case 6:
			// several slots at once hold long records (an embedded short node with a key rest of hundreds of elements)
			if len(n.Branch.Children) >= 4 {
				for k := gen.Uniform(rt, 2, 7, label+"ngrow"); k > 0; k-- {
					c := gen.Uniform(rt, 0, len(n.Branch.Children)-2, label+"gc")
					grown := make([]byte, gen.Pick(rt, []int{73, 137, 300, 500, 700, 800, 1000, 1000, 1000, 1000}, label+"glen"))
					copy(grown, n.Branch.Children[c])
					n.Branch.Children[c] = grown
				}
				what = "branch-several-long-children"
			}
		case 4:
			// a branch without a single occupied slot (all sixteen empty)
			n.Branch.Children = make([][]byte, 16)
			what = "branch-all-slots-empty"
		case 5:
			n.Branch.Children = nil
			what = "branch-no-child-list"
		case 0:
			n.Branch.Hash = resize(n.Branch.Hash)
			what = "branch-hash-length"
		case 1:
			if len(n.Branch.Children) > 0 {
				c := gen.Uniform(rt, 0, len(n.Branch.Children)-1, label+"c")
				n.Branch.Children[c] = resize(n.Branch.Children[c])
				what = "branch-child-length"
			}
		case 2:
			n.Branch.Children = append(n.Branch.Children, make([]byte, 40))
			what = "branch-extra-child"
		default:
			if len(n.Branch.Children) > 1 {
				n.Branch.Children = n.Branch.Children[:len(n.Branch.Children)-1]
				what = "branch-fewer-children"
			}
		}
	case n.Short != nil:
		switch gen.Uniform(rt, 0, 3, label+"sf") {
		case 3:
			if len(n.Short.Hash) > 0 {
				n.Short.Hash = append([]byte(nil), n.Short.Hash...)
				n.Short.Hash[gen.Uniform(rt, 0, len(n.Short.Hash)-1, label+"hb")] ^= 1
				what = "short-claimed-hash-bit"
			}
		case 0:
			n.Short.Hash = resize(n.Short.Hash)
			what = "short-hash-length"
		case 1:
			n.Short.Key = resize(n.Short.Key)
			what = "short-key-length"
		default:
			n.Short.Value = resize(n.Short.Value)
			what = "short-child-ref-length"
		}
	case n.Value != nil:
		if k := gen.Pct(rt, label+"vf"); k < 40 {
			n.Value.Hash = resize(n.Value.Hash)
			what = "value-hash-length"
		} else if k < 70 {
			n.Value.Value = resize(n.Value.Value)
			what = "value-length"
		} else {
			n.Value.Value = nil
			what = "value-empty"
		}
	case n.HashNode != nil:
		n.HashNode.Hash = resize(n.HashNode.Hash)
		what = "hashnode-hash-length"
	}
	if what == "" {
		return in, "none"
	}
	b, err := cbor.Marshal(&n)
	if err != nil {
		return in, "none"
	}
	pt.Pairs[i].Value = b
	out, err := cbor.Marshal(&pt)
	if err != nil {
		return in, "none"
	}
	return out, "record-field:" + what
}

// branchWithBlobs builds a weighted branch record whose child blobs have arbitrary lengths.
func branchWithBlobs(rt *rapid.T) []byte {
	n := gen.Pick(rt, []int{16, 16, 16, 1, 15, 17, 40}, "nchildren")
	pb := wmpt.PersistNodeBranch{Hash: bytes.Repeat([]byte{1}, gen.Pick(rt, []int{32, 0, 5}, "hlen"))}
	for i := 0; i < n; i++ {
		l := 0
		if gen.Chance(rt, 60, "has") {
			l = gen.Uniform(rt, 0, 80, "bloblen")
		}
		pb.Children = append(pb.Children, bytes.Repeat([]byte{byte(i + 1)}, l))
	}
	out, _ := cbor.Marshal(&wmpt.PersistNodeBase{Branch: &pb})
	return out
}

// shortWithBlob builds a weighted short-node record whose child reference has an arbitrary length.
func shortWithBlob(rt *rapid.T) []byte {
	ps := wmpt.PersistNodeShort{Key: bytes.Repeat([]byte{3}, gen.Uniform(rt, 0, 70, "klen")), Hash: make([]byte, gen.Pick(rt, []int{32, 0, 31}, "hlen")), Value: bytes.Repeat([]byte{9}, gen.Uniform(rt, 0, 45, "vlen"))}
	out, _ := cbor.Marshal(&wmpt.PersistNodeBase{Short: &ps})
	return out
}

func TestMutatedEncodings(t *testing.T) {
	ev.Rapid(t, 6000, 40000)
	rapid.Check(t, func(rt *rapid.T) {
		c := harvest(rt)
		type target struct {
			name string
			pool [][]byte
		}
		targets := []target{{"CreateNode", c.mptNodes}, {"DeserializeNode", c.wmNodes}, {"Deserialize", c.paths}, {"VerifyBlockProof", c.proofs}}
		for round := 0; round < 6; round++ {
			tg := gen.Pick(rt, targets, "target")
			if len(tg.pool) == 0 {
				continue
			}
			src := gen.Pick(rt, tg.pool, "src")
			in := src
			var kinds []string
			if tg.name == "DeserializeNode" && gen.Chance(rt, 25, "handbuilt") {
				if gen.Chance(rt, 65, "branchorshort") {
					in = branchWithBlobs(rt)
					kinds = append(kinds, "hand-built-branch")
				} else {
					in = shortWithBlob(rt)
					kinds = append(kinds, "hand-built-short")
				}
			} else if gen.Chance(rt, 8, "arbitrary") {
				in = rapid.SliceOfN(rapid.Byte(), 0, 24).Draw(rt, "bytes")
				kinds = append(kinds, "arbitrary-bytes")
			} else if (tg.name == "Deserialize" || tg.name == "VerifyBlockProof") && gen.Chance(rt, 45, "fieldmut") {
				for i := gen.Uniform(rt, 1, 2, "nfm"); i > 0; i-- {
					var k string
					in, k = fieldMutate(rt, in, fmt.Sprintf("f%d", i))
					kinds = append(kinds, k)
				}
			} else {
				other := gen.Pick(rt, tg.pool, "other")
				for i := gen.Uniform(rt, 1, 3, "nmut"); i > 0; i-- {
					var k string
					in, k = mutate(rt, in, other, fmt.Sprintf("m%d", i))
					kinds = append(kinds, k)
				}
			}
			if len(in) > 64<<10 {
				in = in[:64<<10]
			}
			var acc, past bool
			switch tg.name {
			case "CreateNode":
				acc, past = tryCreateNode(rt, in)
			case "DeserializeNode":
				acc, past = tryDeserializeNode(rt, in)
			case "Deserialize":
				acc, past = tryDeserializeTrie(rt, in)
			default:
				blk := uint64(gen.Uniform(rt, 0, 40, "blk"))
				if gen.Chance(rt, 30, "blkedge") {
					blk = gen.Pick(rt, []uint64{0, 0, 1, 1<<63 - 1, 1 << 63, 1<<64 - 1}, "blkval")
				}
				acc, past = tryVerify(rt, blk, in)
			}
			differs := !bytes.Equal(in, src)
			outcome := "rejected-early"
			if acc {
				outcome = "accepted"
			} else if past {
				outcome = "rejected-late"
			}
			cls := []string{"target:" + tg.name, "outcome:" + outcome}
			for _, k := range kinds {
				cls = append(cls, "mutation:"+k)
			}
			ev.Case(tg.name+string(in), differs && past, cls...)
			if differs && past && ev.WantSample() {
				ev.Sample(map[string]any{"target": tg.name, "mutations": kinds, "outcome": outcome, "input_hex": fmt.Sprintf("%x", in)})
			}
		}
	})
}

// Minimal inputs of the panics found earlier (KNOWN_FINDINGS.txt).
func TestWitnesses(t *testing.T) {
	try := func(f func()) (msg string) {
		defer func() {
			if r := recover(); r != nil {
				msg = fmt.Sprintf("panic: %v", r)
			}
		}()
		f()
		return ""
	}
	ev.Witness(t, "C15-createnode-panics", func() string {
		head := make([]byte, 16)
		for name, in := range map[string][]byte{
			"type byte 0":                               append([]byte{0}, head...),
			"leaf with one separator":                   append(append([]byte{2}, head...), "ab:cd"...),
			"branch with 66 hex digits in a child slot": append(append(append([]byte{4}, head...), bytes.Repeat([]byte("ab"), 33)...), bytes.Repeat([]byte(":"), 16)...),
		} {
			if m := try(func() { _, _ = util.CreateNode(bytes.NewReader(in)) }); m != "" {
				return "CreateNode on a node with " + name + ": " + m
			}
		}
		return ""
	})
	ev.Witness(t, "C15-wmpt-decoders-panic", func() string {
		pb := wmpt.PersistNodeBranch{Hash: make([]byte, 32), Children: make([][]byte, 16)}
		pb.Children[3] = make([]byte, 50)
		in, _ := cbor.Marshal(&wmpt.PersistNodeBase{Branch: &pb})
		if m := try(func() { _, _ = wmpt.DeserializeNode(in) }); m != "" {
			return "DeserializeNode on a branch with a 50-byte child blob: " + m
		}
		pb.Children = make([][]byte, 17)
		pb.Children[16] = make([]byte, 40)
		in, _ = cbor.Marshal(&wmpt.PersistNodeBase{Branch: &pb})
		if m := try(func() { _, _ = wmpt.DeserializeNode(in) }); m != "" {
			return "DeserializeNode on a branch with 17 children: " + m
		}
		nulls := []byte{0x81, 0x82, 0xf6, 0xf6} // PersistTrie{Pairs: [nil, nil]}
		if m := try(func() { _, _, _ = wmpt.New(nil, nil).VerifyBlockProof(1, nulls) }); m != "" {
			return "VerifyBlockProof on an element list of CBOR nulls: " + m
		}
		if m := try(func() { _ = wmpt.New(nil, nil).Deserialize(nulls) }); m != "" {
			return "Deserialize on an element list of CBOR nulls: " + m
		}
		return ""
	})
}

// ---------- native fuzz targets (thorough tier) ----------

func fixedCorpus() *corpus {
	c := &corpus{}
	db := util.NewMemoryNodeDB()
	mpt := mptkit.NewTrie(db, 1, nil)
	for _, p := range []string{"", "ab", "abcd", "abce", "f0"} {
		_, _ = mpt.Insert(util.Path(p), mptkit.Val([]byte("v:"+p)))
	}
	for _, n := range db.Nodes {
		c.mptNodes = append(c.mptNodes, n.Encode())
	}
	sort.Slice(c.mptNodes, func(i, j int) bool { return bytes.Compare(c.mptNodes[i], c.mptNodes[j]) < 0 })
	tr := wmpt.New(nil, nil)
	var keys [][]byte
	for i := 0; i < 12; i++ {
		k := make([]byte, 32)
		k[0], k[1], k[31] = byte(i%3)<<4, byte(i), byte(i*5)
		keys = append(keys, k)
		_ = tr.Update(k, []byte{byte(i), 1, 2}, uint64(1+i%4))
	}
	tr.Root()
	for b := uint64(1); b <= tr.Weight(); b += 3 {
		if _, p, err := tr.GetBlockProof(b); err == nil {
			c.proofs = append(c.proofs, p)
			var pt wmpt.PersistTrie
			if cbor.Unmarshal(p, &pt) == nil {
				for _, pr := range pt.Pairs {
					c.wmNodes = append(c.wmNodes, pr.Value)
				}
			}
		}
	}
	for _, n := range []int{0, 3, 11, 12} {
		if p, err := tr.GetPath(keys[:n]); err == nil {
			c.paths = append(c.paths, p)
		}
	}
	return c
}

var hostile = [][]byte{
	{}, {0}, {3}, {5}, {255}, {2}, {4}, {8},
	append([]byte{4, 0, 0, 0, 0, 0, 0, 0, 0, 0, 0, 0, 0, 0, 0, 0, 0}, bytes.Repeat([]byte("a"), 66)...),
	append([]byte{2, 0, 0, 0, 0, 0, 0, 0, 0, 0, 0, 0, 0, 0, 0, 0, 0}, "ab"...),
	{0x81, 0x82, 0xf6, 0xf6}, {0x81, 0x80}, {0xa1, 0x0a, 0x82, 0x40, 0x81, 0x58, 0x32},
}

func FuzzCreateNode(f *testing.F) {
	for _, b := range append(fixedCorpus().mptNodes, hostile...) {
		f.Add(b)
	}
	f.Fuzz(func(t *testing.T, in []byte) { tryCreateNode(t, in) })
}

func FuzzDeserializeNode(f *testing.F) {
	for _, b := range append(fixedCorpus().wmNodes, hostile...) {
		f.Add(b)
	}
	f.Fuzz(func(t *testing.T, in []byte) { tryDeserializeNode(t, in) })
}

func FuzzDeserializeTrie(f *testing.F) {
	for _, b := range append(fixedCorpus().paths, hostile...) {
		f.Add(b)
	}
	f.Fuzz(func(t *testing.T, in []byte) { tryDeserializeTrie(t, in) })
}

func FuzzVerifyBlockProof(f *testing.F) {
	for i, b := range append(fixedCorpus().proofs, hostile...) {
		f.Add(uint16(i), b)
	}
	f.Fuzz(func(t *testing.T, blk uint16, in []byte) { tryVerify(t, uint64(blk), in) })
}

// A well-formed but very deep export: a chain of short nodes, each the value of the one above (accepted by the
// decoder as it stands). Decoding must stay prompt; it takes about a tenth of a second here, the limit is 100 times that.
func TestDeepChainExport(t *testing.T) {
	ev.Guard(t, "TestDeepChainExport", func() {
		depth := ev.N(60000, 100000)
		// declared hashes of the inner elements are only compared with the references to them; the root's hash is
		// recomputed by the decoder, so it is the real one
		hashOf := func(i int) []byte {
			h := make([]byte, 32)
			binary.BigEndian.PutUint64(h[24:], uint64(i))
			h[0] = 0x5a
			return h
		}
		ref := func(i int) []byte { return binary.BigEndian.AppendUint64(append([]byte{}, hashOf(i)...), 1) }
		key := []byte{1}
		pairs := make([]*wmpt.PersistTriePair, 0, depth+1)
		for i := 0; i < depth; i++ {
			h := hashOf(i)
			if i == 0 {
				d := sha3.Sum256(append(append([]byte{}, key...), hashOf(1)...))
				h = d[:]
			}
			el, err := cbor.Marshal(&wmpt.PersistNodeBase{Short: &wmpt.PersistNodeShort{Key: key, Hash: h, Value: ref(i + 1)}})
			if err != nil {
				t.Fatalf("HARNESS: %v", err)
			}
			pairs = append(pairs, &wmpt.PersistTriePair{Value: el})
		}
		val, err := cbor.Marshal(&wmpt.PersistNodeBase{Value: &wmpt.PersistNodeValue{Value: []byte("v"), Hash: hashOf(depth), Weight: 1}})
		if err != nil {
			t.Fatalf("HARNESS: %v", err)
		}
		pairs = append(pairs, &wmpt.PersistTriePair{Value: val})
		in, err := cbor.Marshal(&wmpt.PersistTrie{Pairs: pairs})
		if err != nil {
			t.Fatalf("HARNESS: %v", err)
		}
		done := make(chan error, 1)
		st := time.Now()
		go func() {
			defer func() {
				if r := recover(); r != nil {
					done <- fmt.Errorf("panic: %v", r)
				}
			}()
			tr := wmpt.New(nil, nil)
			err := tr.Deserialize(in)
			if err == nil {
				_ = tr.Root()
			}
			done <- err
		}()
		select {
		case err := <-done:
			if err != nil && strings.HasPrefix(err.Error(), "panic") {
				t.Fatalf("Deserialize of a %d-element chain export (%d bytes): %v", depth+1, len(in), err)
			}
			ev.Case(fmt.Sprintf("deep-chain/%d", depth), true, "deep-chain-export", fmt.Sprintf("accepted:%v", err == nil))
		case <-time.After(25 * time.Second):
			t.Fatalf("Deserialize of a %d-element chain export (%d bytes) has not returned after %v (it takes a fraction of a second on this code)", depth+1, len(in), time.Since(st).Round(time.Second))
		}
	})
}

// State-trie node encodings whose value part is larger than any value the trie would accept on insert (the limit, the
// limit plus one, 12 MiB): the decoder has no such limit, so it may accept them - and what it accepts must re-encode,
// hash and clone without panicking.
func TestOversizeStateTrieNodes(t *testing.T) {
	ev.Guard(t, "TestOversizeStateTrieNodes", func() {
		seed := ev.SeedFor("TestOversizeStateTrieNodes")
		for _, size := range []int{util.MPTMaxAllowableNodeSize, util.MPTMaxAllowableNodeSize + 1, 12 << 20} {
			val := bytes.Repeat([]byte{0x5a, byte(seed), 0x3a}, size/3+1)[:size]
			child := bytes.Repeat([]byte{0xab}, 32)
			branch := &refmpt.Node{Type: refmpt.TBranch, Origin: int64(seed % 5), Version: int64(seed % 5), Value: val}
			branch.Children[3] = child
			for kind, n := range map[string]*refmpt.Node{
				"leaf":   {Type: refmpt.TLeaf, Origin: 1, Version: 1, Prefix: []byte("ab"), Path: []byte("cd"), Value: val},
				"branch": branch,
			} {
				enc := refmpt.Encode(n)
				acc, _ := tryCreateNode(t, enc)
				ev.Case(fmt.Sprintf("oversize/%s/%d/%v", kind, size, acc), true, "state-trie-node-with-a-value-beyond-the-insert-limit")
			}
		}
	})
}

// Branch records in which several slots hold long child records (an embedded short node with a key rest of hundreds of
// elements) next to ordinary references: whatever the decoder makes of them, what it accepts must serialize again.
func TestBranchesWithSeveralLongChildren(t *testing.T) {
	ev.Guard(t, "TestBranchesWithSeveralLongChildren", func() {
		seed := ev.SeedFor("TestBranchesWithSeveralLongChildren")
		for nlong := 1; nlong <= 6; nlong++ {
			for _, size := range []int{200, 500, 700, 1000, 1500} {
				for _, where := range []string{"first", "last", "spread"} {
					pb := wmpt.PersistNodeBranch{Hash: bytes.Repeat([]byte{byte(seed)}, 32)}
					for i := 0; i < 16; i++ {
						c := make([]byte, 40)
						c[0], c[39] = byte(i+1), 1
						long := false
						switch where {
						case "first":
							long = i < nlong
						case "last":
							long = i >= 15-nlong && i < 15
						default:
							long = i%3 == 0 && i/3 < nlong
						}
						if long {
							c = append(c, bytes.Repeat([]byte{byte(7 + i)}, 32+size)...)
						}
						pb.Children = append(pb.Children, c)
					}
					enc, err := cbor.Marshal(&wmpt.PersistNodeBase{Branch: &pb})
					if err != nil {
						t.Fatalf("HARNESS: %v", err)
					}
					acc, _ := tryDeserializeNode(t, enc)
					ev.Case(fmt.Sprintf("longchildren/%d/%d/%s/%v", nlong, size, where, acc), nlong >= 3, "branch-with-several-long-children")
				}
			}
		}
	})
}
