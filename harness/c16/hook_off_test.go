//go:build !verif

package c16

func installYield(f func(point string)) {}

const haveYield = false
