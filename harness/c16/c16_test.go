// C16 — concurrent use of one state trie is linearizable and race-free.
package c16

import (
	"bytes"
	"context"
	"errors"
	"fmt"
	"os"
	"runtime"
	"sort"
	"strings"
	"sync"
	"sync/atomic"
	"testing"
	"time"

	"github.com/0chain/common/core/util"
	"github.com/anishathalye/porcupine"
	"pgregory.net/rapid"

	"verif/harness/internal/ev"
	"verif/harness/internal/gen"
	"verif/harness/internal/mptkit"
	"verif/harness/internal/refmpt"
)

func TestMain(m *testing.M) {
	ev.SetMeta(ev.Meta{
		Property: "C16", Level: "exploration",
		Rule: "rapid draws an initial content and 2..4 goroutine scripts of 3..8 operations over overlapping and disjoint keys: insert, delete, lookup, Iterate, GetChanges/GetChangeCount/GetDeletes/GetRoot, SaveChanges into a second store; the scripts start behind a barrier with drawn Gosched perturbation, under the race detector. Every operation is recorded with call/return stamps from one atomic counter and its result; porcupine checks the history against the sequential map model (insert, delete reporting present/absent, lookup, iterate = snapshot); after the join a sequential Iterate must equal the content the linearization ends in, and GetRoot must equal the independent reference root of that content (fixed version). " +
			"A second generator damages the store (removes drawn nodes) and runs only readers (lookups, Iterate, HasMissingNodes, GetMissingNodeKeys, GetAllMissingNodes) concurrently: results must equal the sequential expectation and no race may be reported. " +
			"A stress generator runs one writer with a fixed sequence against 2..48 readers that compare every GetChanges snapshot with a sequential reference table; the readers pause at the verif-tag yield point at the entry of the change collector's read methods. Non-trivial = at least two writers on a shared key prefix overlapped in time with a reader (from the stamps); distinct = distinct (content, scripts).",
		Assumptions: []string{"schedules are whatever the Go scheduler plus perturbation produces: this check detects, it does not exhaust", "the trie version is fixed during a case (SetVersion is not among the concurrent operations the property lists)"},
	})
	ev.Main(m)
}

// ---- porcupine model: a map from path to value ----

type opIn struct {
	Kind string // ins | del | get | iter
	Path string
	Val  string
}

type opOut struct {
	Val     string // get: value; iter: rendered content
	Present bool   // get/del: key was present
	Err     string // unexpected error text
}

func render(m map[string]string) string {
	ks := make([]string, 0, len(m))
	for k := range m {
		ks = append(ks, k)
	}
	sort.Strings(ks)
	var sb strings.Builder
	for _, k := range ks {
		fmt.Fprintf(&sb, "%s=%s;", k, m[k])
	}
	return sb.String()
}

func parse(s string) map[string]string {
	m := map[string]string{}
	for _, kv := range strings.Split(s, ";") {
		if kv == "" {
			continue
		}
		i := strings.IndexByte(kv, '=')
		m[kv[:i]] = kv[i+1:]
	}
	return m
}

var model = porcupine.Model{
	Init: func() interface{} { return "" },
	Step: func(state, input, output interface{}) (bool, interface{}) {
		st := parse(state.(string))
		in, out := input.(opIn), output.(opOut)
		if out.Err != "" {
			return false, state
		}
		switch in.Kind {
		case "ins":
			st[in.Path] = in.Val
			return true, render(st)
		case "del":
			_, had := st[in.Path]
			if had != out.Present {
				return false, state
			}
			delete(st, in.Path)
			return true, render(st)
		case "get":
			v, had := st[in.Path]
			return had == out.Present && (!had || v == out.Val), state
		case "iter":
			return render(st) == out.Val, state
		}
		return true, state // reads of change sets / root / saves do not change the map
	},
	Equal: func(a, b interface{}) bool { return a == b },
	DescribeOperation: func(input, output interface{}) string {
		return fmt.Sprintf("%+v -> %+v", input, output)
	},
}

type scriptOp struct {
	Kind  string `json:"k"`
	Path  string `json:"p,omitempty"`
	Val   string `json:"v,omitempty"`
	Yield int    `json:"y"`
}

func TestRaceLinearizable(t *testing.T) {
	ev.Rapid(t, 250, 4000)
	rapid.Check(t, func(rt *rapid.T) {
		version := int64(gen.Uniform(rt, 0, 2, "version"))
		db := util.NewLevelNodeDB(util.NewMemoryNodeDB(), util.NewMemoryNodeDB(), false)
		mpt := mptkit.NewTrie(db, version, nil)
		// initial content and key universe: prefix-sharing paths
		init := map[string][]byte{}
		var used []string
		ops := mptkit.GenOpsP(rt, init, &used, gen.Uniform(rt, 0, 8, "ninit"), 3, 10, "i")
		if err := mptkit.Apply(mpt, ops); err != nil {
			rt.Fatalf("HARNESS: %v", err)
		}
		universe := append([]string{}, used...)
		for len(universe) < 4 {
			universe = append(universe, mptkit.GenPath(rt, universe, 3, "u"))
		}
		ng := gen.Uniform(rt, 2, 4, "ngoroutines")
		scripts := make([][]scriptOp, ng)
		valSeq := 0
		for g := range scripts {
			for i := gen.Uniform(rt, 3, 8, "nops"); i > 0; i-- {
				k := gen.Pct(rt, "kind")
				o := scriptOp{Yield: gen.Uniform(rt, 0, 3, "yield")}
				switch {
				case k < 30:
					valSeq++
					o.Kind, o.Path, o.Val = "ins", gen.Pick(rt, universe, "p"), fmt.Sprintf("%02x%02x", g, valSeq)
				case k < 48:
					o.Kind, o.Path = "del", gen.Pick(rt, universe, "p")
				case k < 70:
					o.Kind, o.Path = "get", gen.Pick(rt, universe, "p")
				case k < 82:
					o.Kind = "iter"
				case k < 92:
					o.Kind = gen.Pick(rt, []string{"changes", "changecount", "deletes", "root"}, "rk")
				default:
					o.Kind = "save"
				}
				scripts[g] = append(scripts[g], o)
			}
		}
		// the porcupine history starts with the initial content as completed inserts
		var clock atomic.Int64
		var hmu sync.Mutex
		var history []porcupine.Operation
		for p, v := range init {
			c := clock.Add(1)
			history = append(history, porcupine.Operation{ClientId: ng, Input: opIn{Kind: "ins", Path: p, Val: fmt.Sprintf("%x", v)}, Call: c, Output: opOut{}, Return: clock.Add(1)})
		}
		// the store the savers write to: a memory store, or a level over a store that holds the initial nodes; the savers
		// may ask for the deleted nodes to be removed there as well
		var sink util.NodeDB = util.NewMemoryNodeDB()
		sinkLevel := gen.Chance(rt, 50, "sinklevel")
		if sinkLevel {
			sink = util.NewLevelNodeDB(util.NewMemoryNodeDB(), util.NewMemoryNodeDB(), false)
		}
		saveDeletes := gen.Chance(rt, 60, "savedeletes")
		start := make(chan struct{})
		var wg sync.WaitGroup
		for g := range scripts {
			g := g
			wg.Add(1)
			go func() {
				defer wg.Done()
				<-start
				for _, o := range scripts[g] {
					for y := 0; y < o.Yield; y++ {
						runtime.Gosched()
					}
					in := opIn{Kind: o.Kind, Path: o.Path, Val: o.Val}
					var out opOut
					call := clock.Add(1)
					func() {
						defer func() {
							if r := recover(); r != nil {
								out.Err = fmt.Sprintf("panic: %v", r)
							}
						}()
						switch o.Kind {
						case "ins":
							v := []byte{}
							fmt.Sscanf(o.Val, "%x", &v)
							if _, err := mpt.Insert(util.Path(o.Path), mptkit.Val(v)); err != nil {
								out.Err = err.Error()
							}
						case "del":
							_, err := mpt.Delete(util.Path(o.Path))
							switch {
							case err == nil:
								out.Present = true
							case errors.Is(err, util.ErrValueNotPresent):
							default:
								out.Err = err.Error()
							}
						case "get":
							v, err := mpt.GetNodeValueRaw(util.Path(o.Path))
							switch {
							case err == nil:
								out.Present, out.Val = true, fmt.Sprintf("%x", v)
							case errors.Is(err, util.ErrValueNotPresent):
							default:
								out.Err = err.Error()
							}
						case "iter":
							c, err := mptkit.Content(mpt)
							if err != nil {
								out.Err = err.Error()
							}
							m := map[string]string{}
							for k, v := range c {
								m[k] = fmt.Sprintf("%x", v)
							}
							out.Val = render(m)
						case "changes":
							mpt.GetChanges()
						case "changecount":
							mpt.GetChangeCount()
						case "deletes":
							mpt.GetDeletes()
						case "root":
							mpt.GetRoot()
						case "save":
							if err := mpt.SaveChanges(context.Background(), sink, saveDeletes); err != nil {
								out.Err = err.Error()
							}
						}
					}()
					ret := clock.Add(1)
					hmu.Lock()
					history = append(history, porcupine.Operation{ClientId: g, Input: in, Call: call, Output: out, Return: ret})
					hmu.Unlock()
				}
			}()
		}
		close(start)
		wg.Wait()
		describe := func() string {
			var sb strings.Builder
			fmt.Fprintf(&sb, "initial %s\n", mptkit.Show(init))
			for g, s := range scripts {
				fmt.Fprintf(&sb, "goroutine %d: %+v\n", g, s)
			}
			for _, h := range history {
				if h.ClientId < ng {
					fmt.Fprintf(&sb, "  [%d,%d] g%d %+v -> %+v\n", h.Call, h.Return, h.ClientId, h.Input, h.Output)
				}
			}
			return sb.String()
		}
		for _, h := range history {
			if e := h.Output.(opOut).Err; e != "" {
				rt.Fatalf("operation %+v failed: %s\n%s", h.Input, e, describe())
			}
		}
		// final sequential observations close the history
		final, err := mptkit.Content(mpt)
		if err != nil {
			rt.Fatalf("final Iterate: %v\n%s", err, describe())
		}
		fm := map[string]string{}
		for k, v := range final {
			fm[k] = fmt.Sprintf("%x", v)
		}
		c := clock.Add(1)
		history = append(history, porcupine.Operation{ClientId: ng, Input: opIn{Kind: "iter"}, Call: c, Output: opOut{Val: render(fm)}, Return: clock.Add(1)})
		if !porcupine.CheckOperations(model, history) {
			rt.Fatalf("history is not linearizable with respect to the map model (final content %s)\n%s", render(fm), describe())
		}
		if want := refmpt.Root(final, version); !bytes.Equal(mpt.GetRoot(), want) {
			rt.Fatalf("final root %x, reference root of the final content %x\n%s", mpt.GetRoot(), want, describe())
		}
		// every saved change set left the sink self-consistent for the final root if a save came last; always: nodes hash to keys
		_ = sink.Iterate(context.Background(), func(_ context.Context, key util.Key, node util.Node) error {
			if !bytes.Equal(key, node.GetHashBytes()) {
				rt.Fatalf("a concurrent SaveChanges stored a node under %x that hashes to %x", key, node.GetHashBytes())
			}
			return nil
		})
		// overlap measurement from the stamps
		writersOverlapReader := false
		for _, a := range history {
			ia := a.Input.(opIn)
			if a.ClientId >= ng || (ia.Kind != "get" && ia.Kind != "iter") {
				continue
			}
			n := 0
			for _, b := range history {
				ib := b.Input.(opIn)
				if b.ClientId < ng && b.ClientId != a.ClientId && (ib.Kind == "ins" || ib.Kind == "del") && b.Call <= a.Return && a.Call <= b.Return {
					n++
				}
			}
			if n >= 1 {
				writersOverlapReader = true
			}
		}
		writers := 0
		for _, s := range scripts {
			for _, o := range s {
				if o.Kind == "ins" || o.Kind == "del" {
					writers++
					break
				}
			}
		}
		nt := writersOverlapReader && writers >= 2
		cls := []string{fmt.Sprintf("goroutines:%d", ng)}
		if writersOverlapReader {
			cls = append(cls, "writer-overlapped-reader")
		}
		for _, s := range scripts {
			for _, o := range s {
				if o.Kind == "save" {
					cls = append(cls, "concurrent-save")
				}
			}
		}
		ev.Case(fmt.Sprint(mptkit.Show(init), scripts), nt, cls...)
		if nt && ev.WantSample() {
			ev.Sample(map[string]any{"initial": mptkit.Show(init), "scripts": scripts, "operations": len(history)})
		}
	})
}

// Concurrent readers on a trie whose store lacks nodes.
func TestRaceReadersOnMissingNodes(t *testing.T) {
	ev.Rapid(t, 150, 2500)
	rapid.Check(t, func(rt *rapid.T) {
		full := util.NewMemoryNodeDB()
		build := mptkit.NewTrie(full, 0, nil)
		content := map[string][]byte{}
		var used []string
		ops := mptkit.GenOpsP(rt, content, &used, gen.Uniform(rt, 4, 16, "n"), 3, 10, "b")
		if err := mptkit.Apply(build, ops); err != nil {
			rt.Fatalf("HARNESS: %v", err)
		}
		root := append([]byte(nil), build.GetRoot()...)
		if len(content) == 0 {
			rt.Skip("empty")
		}
		w := refmpt.WalkFrom(root, mptkit.GetterOf(full), false)
		var nonRoot []string
		for k := range w.Reachable {
			if k != string(root) {
				nonRoot = append(nonRoot, k)
			}
		}
		sort.Strings(nonRoot)
		damaged := util.NewMemoryNodeDB()
		removed := map[string]bool{}
		if len(nonRoot) > 0 {
			for i := gen.Uniform(rt, 1, 3, "nremove"); i > 0; i-- {
				removed[gen.Pick(rt, nonRoot, "rm")] = true
			}
		}
		_ = full.Iterate(context.Background(), func(_ context.Context, key util.Key, node util.Node) error {
			if !removed[string(key)] {
				_ = damaged.PutNode(append(util.Key(nil), key...), node)
			}
			return nil
		})
		dw := refmpt.WalkFrom(root, mptkit.GetterOf(damaged), false)
		broken := func(p string) bool {
			for b := range dw.BrokenAt {
				if strings.HasPrefix(p, b) {
					return true
				}
			}
			return false
		}
		mpt := mptkit.NewTrie(damaged, 0, root)
		keys := mptkit.SortedKeys(content)
		nr := gen.Uniform(rt, 2, 5, "nreaders")
		type rop struct {
			kind, path string
			yield      int
		}
		scripts := make([][]rop, nr)
		for r := range scripts {
			for i := gen.Uniform(rt, 3, 10, "nops"); i > 0; i-- {
				scripts[r] = append(scripts[r], rop{gen.Pick(rt, []string{"get", "get", "get", "iter", "hasmissing", "missingkeys", "allmissing"}, "k"), gen.Pick(rt, keys, "p"), gen.Uniform(rt, 0, 2, "y")})
			}
		}
		var mu sync.Mutex
		failure := ""
		fail := func(f string, a ...any) {
			mu.Lock()
			if failure == "" {
				failure = fmt.Sprintf(f, a...)
			}
			mu.Unlock()
		}
		var wg sync.WaitGroup
		start := make(chan struct{})
		for r := range scripts {
			r := r
			wg.Add(1)
			go func() {
				defer wg.Done()
				defer func() {
					if rr := recover(); rr != nil {
						fail("reader panic: %v", rr)
					}
				}()
				<-start
				for _, o := range scripts[r] {
					for y := 0; y < o.yield; y++ {
						runtime.Gosched()
					}
					switch o.kind {
					case "get":
						v, err := mpt.GetNodeValueRaw(util.Path(o.path))
						if broken(o.path) {
							if err == nil || errors.Is(err, util.ErrValueNotPresent) {
								fail("lookup %q below an absent node: %x, %v", o.path, v, err)
							}
						} else if err != nil || !bytes.Equal(v, content[o.path]) {
							fail("lookup %q = %x, %v; want %x", o.path, v, err, content[o.path])
						}
					case "iter":
						err := mpt.Iterate(context.Background(), func(context.Context, util.Path, util.Key, util.Node) error { return nil }, util.NodeTypeValueNode)
						if (err != nil) != (len(dw.Missing) > 0) {
							fail("Iterate error %v with %d missing nodes", err, len(dw.Missing))
						}
					case "hasmissing":
						has, err := mpt.HasMissingNodes(context.Background())
						if err != nil || has != (len(dw.Missing) > 0) {
							fail("HasMissingNodes = %v, %v; %d missing", has, err, len(dw.Missing))
						}
					case "missingkeys":
						for _, k := range mpt.GetMissingNodeKeys() {
							if !dw.Missing[string(k)] {
								fail("GetMissingNodeKeys reports %x, which is not an absent reachable node", k)
							}
						}
					default:
						all, err := mpt.GetAllMissingNodes()
						if err != nil || len(all) != len(dw.Missing) {
							fail("GetAllMissingNodes = %d keys, %v; walker says %d", len(all), err, len(dw.Missing))
						}
					}
				}
			}()
		}
		close(start)
		wg.Wait()
		if failure != "" {
			rt.Fatalf("%s\ncontent %s removed %d nodes", failure, mptkit.Show(content), len(removed))
		}
		ev.Case(fmt.Sprint(mptkit.Show(content), removed, scripts), len(dw.Missing) > 0 && nr >= 2, "readers-on-missing-nodes", fmt.Sprintf("readers:%d", nr))
	})
}

// A writer inserts a fixed sequence of distinct keys while readers take change-set snapshots, inspect what they got
// after the call returned, and savers start SaveChanges with an already cancelled context (its worker keeps running
// in the background on the collector's clone). Every snapshot must be one the sequential run of the same sequence
// has seen: (root -> number of changes, number of deletes) from a reference run.
func TestRaceChangeSetSnapshots(t *testing.T) {
	ev.Rapid(t, 12, 60)
	rapid.Check(t, func(rt *rapid.T) {
		nkeys := gen.Uniform(rt, 60, 400, "nkeys")
		nreaders := gen.Uniform(rt, 2, 6, "nreaders")
		if gen.Chance(rt, 60, "manyreaders") {
			// more readers than processors: a reader is then often descheduled between two calls
			nreaders = gen.Uniform(rt, 16, 48, "nreadersmany")
		}
		version := int64(gen.Uniform(rt, 0, 2, "version"))
		keyOf := func(i int) string { return fmt.Sprintf("%02x%02x%02x", (i*7)%256, (i*13)%256, i%256) }
		valOf := func(i, round int) []byte { return []byte{byte(i), byte(i >> 8), byte(round), 0x3a} }
		// the writer's script: insert all keys, then overwrite a drawn subset (updates of keys already in the unsaved change set)
		type wop struct{ i, round int }
		var script []wop
		for i := 0; i < nkeys; i++ {
			script = append(script, wop{i, 0})
		}
		for j := gen.Uniform(rt, 100, 900, "nupdates"); j > 0; j-- {
			script = append(script, wop{gen.Uniform(rt, 0, nkeys-1, "upd"), 1 + j%250})
		}
		// sequential reference run
		type snap struct{ changes, deletes int }
		ref := map[string]snap{}
		// two thirds of the cases start on existing state (half of the keys, older values, in the lower store), so that
		// the writer replaces existing nodes and the set of deleted nodes grows as well
		base := util.NewMemoryNodeDB()
		var groot util.Key
		if gen.Chance(rt, 66, "genesis") {
			g := mptkit.NewTrie(base, version, nil)
			for i := 0; i < nkeys; i += 2 {
				if _, err := g.Insert(util.Path(keyOf(i)), mptkit.Val(valOf(i, 251))); err != nil {
					rt.Fatalf("HARNESS: %v", err)
				}
			}
			groot = g.GetRoot()
		}
		// half of the tries on existing state were brought up to date by a sync that also handed over dead nodes (a third
		// of the existing nodes; the writer replaces some of them itself)
		var dead []util.Node
		if groot != nil && gen.Chance(rt, 50, "synceddead") {
			i := 0
			_ = base.Iterate(context.Background(), func(ctx context.Context, key util.Key, node util.Node) error {
				if i%3 == 0 {
					dead = append(dead, node.CloneNode())
				}
				i++
				return nil
			})
			sort.Slice(dead, func(a, b int) bool { return dead[a].GetHash() < dead[b].GetHash() })
		}
		open := func() *util.MerklePatriciaTrie {
			m := mptkit.NewTrie(util.NewLevelNodeDB(util.NewMemoryNodeDB(), base, false), version, groot)
			if len(dead) > 0 {
				if err := m.MergeDB(util.NewMemoryNodeDB(), groot, dead); err != nil {
					rt.Fatalf("HARNESS: MergeDB: %v", err)
				}
			}
			return m
		}
		nd0 := len(open().GetDeletes())
		validChanges := map[int]bool{0: true}
		validDeletes := map[int]bool{nd0: true}
		rootIdx := map[string]int{string(groot): 0} // root -> number of writer operations applied (-1: reached twice)
		delCounts := []int{nd0}
		{
			m := open()
			ref[string(groot)] = snap{0, 0}
			for _, o := range script {
				if _, err := m.Insert(util.Path(keyOf(o.i)), mptkit.Val(valOf(o.i, o.round))); err != nil {
					rt.Fatalf("HARNESS: %v", err)
				}
				r, c, d, _ := m.GetChanges()
				ref[string(r)] = snap{len(c), len(d)}
				validChanges[len(c)] = true
				nd := len(m.GetDeletes())
				validDeletes[nd] = true
				delCounts = append(delCounts, nd)
				if _, dup := rootIdx[string(r)]; dup {
					rootIdx[string(r)] = -1
				} else {
					rootIdx[string(r)] = len(delCounts) - 1
				}
			}
		}
		mpt := open()
		var mu sync.Mutex
		failure := ""
		fail := func(f string, a ...any) {
			mu.Lock()
			if failure == "" {
				failure = fmt.Sprintf(f, a...)
			}
			mu.Unlock()
		}
		done := make(chan struct{})
		var wg sync.WaitGroup
		var snapshots atomic.Int64
		sharedSink := util.NewLevelNodeDB(util.NewMemoryNodeDB(), util.NewMemoryNodeDB(), false)
		// The readers pause where the change collector's read methods begin (verif-tag hook): with the trie's lock held
		// around them, as it must be, the pause only delays the writer; a change set assembled from separately locked
		// reads is torn by it.
		var yields atomic.Int64
		installYield(func(string) {
			n := yields.Add(1)
			runtime.Gosched()
			if n%8 == 0 {
				time.Sleep(20 * time.Microsecond)
			}
		})
		defer installYield(nil)
		wg.Add(1)
		go func() {
			defer wg.Done()
			defer close(done)
			for _, o := range script {
				if _, err := mpt.Insert(util.Path(keyOf(o.i)), mptkit.Val(valOf(o.i, o.round))); err != nil {
					fail("Insert: %v", err)
					return
				}
			}
		}()
		for r := 0; r < nreaders; r++ {
			r := r
			wg.Add(1)
			go func() {
				defer wg.Done()
				defer func() {
					if rr := recover(); rr != nil {
						fail("reader panic: %v", rr)
					}
				}()
				sink := util.NewMemoryNodeDB()
				cancelled, cancel := context.WithCancel(context.Background())
				cancel()
				for n := 0; ; n++ {
					select {
					case <-done:
						return
					default:
					}
					if (r == 1 || r == 2) && n%4 == 1 {
						// two savers write the current change set (and remove the deleted nodes) into one level store at the
						// same time as each other and as the writer
						if err := mpt.SaveChanges(context.Background(), sharedSink, true); err != nil {
							fail("SaveChanges into the shared level store: %v", err)
							return
						}
						continue
					}
					if r == 0 && n%8 == 0 {
						// a save that gives up at once; its worker goes on reading the cloned collector while the writer continues
						_ = mpt.SaveChanges(cancelled, sink, false)
						continue
					}
					root, changes, deletes, _ := mpt.GetChanges()
					snapshots.Add(1)
					want, ok := ref[string(root)]
					if !ok {
						fail("GetChanges returned root %x, which no prefix of the writer's sequence has", root)
						return
					}
					if len(changes) != want.changes || len(deletes) != want.deletes {
						fail("torn change set: root %x belongs to %d changes / %d deletes, GetChanges returned %d / %d", root, want.changes, want.deletes, len(changes), len(deletes))
						return
					}
					// the change count on its own is that of some prefix of the writer's sequence too
					for rep := 0; rep < 25; rep++ {
						if cnt := mpt.GetChangeCount(); !validChanges[cnt] {
							fail("GetChangeCount returned %d; after no prefix of the writer's sequence are there that many changed nodes", cnt)
							return
						}
					}
					// GetDeletes on its own is atomic too: its size is that of some prefix of the writer's sequence
					r1 := mpt.GetRoot()
					nd := len(mpt.GetDeletes())
					r2 := mpt.GetRoot()
					if !validDeletes[nd] {
						fail("GetDeletes returned %d nodes; after no prefix of the writer's sequence are there that many deleted nodes", nd)
						return
					}
					// bracketed by two root reads: the call took effect somewhere between the two states
					if i1, ok1 := rootIdx[string(r1)]; ok1 && i1 >= 0 {
						if i2, ok2 := rootIdx[string(r2)]; ok2 && i2 >= i1 {
							okCount := false
							for j := i1; j <= i2; j++ {
								okCount = okCount || delCounts[j] == nd
							}
							if !okCount {
								fail("GetDeletes returned %d nodes between the writer's operations %d and %d, where the deleted set has %v nodes", nd, i1, i2, delCounts[i1:i2+1])
								return
							}
						}
					}
					// three of four snapshots are only compared with the reference table (cheap, so that many
					// snapshots are taken while the writer runs); every fourth is read in full
					if n%4 != 1 {
						continue
					}
					// what was returned is the caller's snapshot: read it while the writer goes on
					seenRoot := len(root) == 0 || want.changes == 0 // nothing changed yet: the root is the one the trie was opened at
					for _, c := range changes {
						if bytes.Equal(c.New.GetHashBytes(), root) {
							seenRoot = true
						}
						if c.Old != nil {
							_ = c.Old.GetHash()
						}
					}
					if !seenRoot {
						fail("change set returned with root %x does not contain that root node", root)
						return
					}
					if mpt.GetChangeCount() < 0 {
						return
					}
				}
			}()
		}
		wg.Wait()
		if failure != "" {
			rt.Fatalf("%s (keys %d, readers %d)", failure, nkeys, nreaders)
		}
		runtime.Gosched()
		cls := []string{"change-set-snapshots-under-writer"}
		if len(dead) > 0 {
			cls = append(cls, "trie-synced-with-dead-nodes")
		}
		ev.Case(fmt.Sprint(nkeys, nreaders, version, len(script)), snapshots.Load() > 50, cls...)
		ev.ExtraAdd("concurrent_change_set_snapshots", snapshots.Load())
	})
}

// Readers that run into missing nodes while a writer works on the same trie: nothing may hang.
func TestRaceMissingNodesWithWriter(t *testing.T) {
	ev.Rapid(t, 25, 400)
	rapid.Check(t, func(rt *rapid.T) {
		full := util.NewMemoryNodeDB()
		build := mptkit.NewTrie(full, 0, nil)
		content := map[string][]byte{}
		for i := 0; i < gen.Uniform(rt, 20, 60, "n"); i++ {
			p := fmt.Sprintf("%02x%02x", (i*37)%256, (i*11)%256)
			v := []byte{byte(i), 1}
			if _, err := build.Insert(util.Path(p), mptkit.Val(v)); err != nil {
				rt.Fatalf("HARNESS: %v", err)
			}
			content[p] = v
		}
		root := append([]byte(nil), build.GetRoot()...)
		w := refmpt.WalkFrom(root, mptkit.GetterOf(full), false)
		var leaves []string
		for k, n := range w.Reachable {
			if n.Type == refmpt.TLeaf {
				leaves = append(leaves, k)
			}
		}
		sort.Strings(leaves)
		removed := map[string]bool{}
		for i := gen.Uniform(rt, 3, 10, "nremove"); i > 0 && len(leaves) > 0; i-- {
			removed[gen.Pick(rt, leaves, "rm")] = true
		}
		damaged := util.NewMemoryNodeDB()
		_ = full.Iterate(context.Background(), func(_ context.Context, key util.Key, node util.Node) error {
			if !removed[string(key)] {
				_ = damaged.PutNode(append(util.Key(nil), key...), node)
			}
			return nil
		})
		dw := refmpt.WalkFrom(root, mptkit.GetterOf(damaged), false)
		mpt := mptkit.NewTrie(util.NewLevelNodeDB(util.NewMemoryNodeDB(), damaged, false), 0, root)
		keys := mptkit.SortedKeys(content)
		nreaders := gen.Uniform(rt, 2, 5, "nreaders")
		rounds := gen.Uniform(rt, 20, 120, "rounds")
		finished := make(chan string, 1)
		go func() {
			var wg sync.WaitGroup
			var mu sync.Mutex
			failure := ""
			stop := make(chan struct{})
			wg.Add(1)
			go func() {
				defer wg.Done()
				defer close(stop)
				for i := 0; i < rounds; i++ {
					// the writer works on keys of its own (inserts may fail when their path crosses a missing node)
					_, _ = mpt.Insert(util.Path(fmt.Sprintf("ee%02x%02x", i%256, (i*3)%256)), mptkit.Val([]byte{byte(i), 2}))
					runtime.Gosched()
				}
			}()
			for r := 0; r < nreaders; r++ {
				r := r
				wg.Add(1)
				go func() {
					defer wg.Done()
					for n := 0; ; n++ {
						select {
						case <-stop:
							return
						default:
						}
						p := keys[(n*7+r)%len(keys)]
						v, err := mpt.GetNodeValueRaw(util.Path(p))
						brokenKey := false
						for b := range dw.BrokenAt {
							if strings.HasPrefix(p, b) {
								brokenKey = true
							}
						}
						if brokenKey && (err == nil || errors.Is(err, util.ErrValueNotPresent)) {
							mu.Lock()
							failure = fmt.Sprintf("lookup %q below an absent node: %x, %v", p, v, err)
							mu.Unlock()
						}
						if !brokenKey && (err != nil || !bytes.Equal(v, content[p])) {
							mu.Lock()
							failure = fmt.Sprintf("lookup %q = %x, %v; want %x", p, v, err, content[p])
							mu.Unlock()
						}
						if n%5 == 0 {
							mpt.GetMissingNodeKeys()
						}
					}
				}()
			}
			wg.Wait()
			finished <- failure
		}()
		select {
		case f := <-finished:
			if f != "" {
				rt.Fatalf("%s", f)
			}
		case <-time.After(90 * time.Second):
			// the goroutines are stuck for good (normal duration: milliseconds); shrinking would hang again and again,
			// so report at once and end the process
			ev.WriteReplay("TestRaceMissingNodesWithWriter", map[string]any{"what": "lookups into missing nodes concurrent with a writer did not return within 90 s: the operations hang", "readers": nreaders, "removed_leaves": len(removed), "keys": len(content)})
			fmt.Printf("--- FAIL: TestRaceMissingNodesWithWriter: operations hang (deadlock)\n")
			ev.Flush()
			os.Exit(1)
		}
		ev.Case(fmt.Sprint(len(content), removed, nreaders, rounds), len(dw.Missing) > 0, "missing-node-readers-with-writer")
	})
}

// One writer keeps updating the values of existing keys (every update replaces the path from the leaf to the root and
// removes the replaced nodes from the store) while several readers look keys up and iterate. No key is ever removed,
// so every lookup must succeed; the values a reader sees for one key never go back in the writer's order; an iteration
// yields every key once with a value that key has had.
func TestRaceReadersDuringUpdates(t *testing.T) {
	ev.Rapid(t, 10, 80)
	rapid.Check(t, func(rt *rapid.T) {
		nkeys := gen.Uniform(rt, 8, 60, "nkeys")
		nupd := gen.Uniform(rt, 200, 900, "nupdates")
		nreaders := gen.Uniform(rt, 2, 6, "nreaders")
		version := int64(gen.Uniform(rt, 0, 2, "version"))
		keyOf := func(i int) string { return fmt.Sprintf("%02x%02x%02x", (i*7)%256, (i*13)%256, i%256) }
		valOf := func(i, seq int) []byte { return []byte{byte(seq >> 8), byte(seq), byte(i), 0x3a} }
		seqOf := func(v []byte) int { return int(v[0])<<8 | int(v[1]) }
		var db util.NodeDB = util.NewMemoryNodeDB()
		if gen.Chance(rt, 50, "layered") {
			db = util.NewLevelNodeDB(util.NewMemoryNodeDB(), util.NewMemoryNodeDB(), false)
		}
		mpt := mptkit.NewTrie(db, version, nil)
		for i := 0; i < nkeys; i++ {
			if _, err := mpt.Insert(util.Path(keyOf(i)), mptkit.Val(valOf(i, 0))); err != nil {
				rt.Fatalf("HARNESS: %v", err)
			}
		}
		upd := make([]int, nupd)
		for j := range upd {
			upd[j] = gen.Uniform(rt, 0, nkeys-1, "upd")
		}
		var mu sync.Mutex
		failure := ""
		fail := func(f string, a ...any) {
			mu.Lock()
			if failure == "" {
				failure = fmt.Sprintf(f, a...)
			}
			mu.Unlock()
		}
		done := make(chan struct{})
		var wg sync.WaitGroup
		var reads atomic.Int64
		wg.Add(1)
		go func() {
			defer wg.Done()
			defer close(done)
			for j, i := range upd {
				if _, err := mpt.Insert(util.Path(keyOf(i)), mptkit.Val(valOf(i, j+1))); err != nil {
					fail("Insert: %v", err)
					return
				}
			}
		}()
		for r := 0; r < nreaders; r++ {
			r := r
			wg.Add(1)
			go func() {
				defer wg.Done()
				defer func() {
					if rr := recover(); rr != nil {
						fail("reader panic: %v", rr)
					}
				}()
				last := make([]int, nkeys)
				for n := 0; ; n++ {
					select {
					case <-done:
						return
					default:
					}
					i := (n*7 + r*3) % nkeys
					if r == 0 && n%16 == 15 {
						seen := 0
						err := mpt.Iterate(context.Background(), func(_ context.Context, path util.Path, _ util.Key, node util.Node) error {
							vn, ok := node.(*util.ValueNode)
							if !ok {
								return fmt.Errorf("iteration handed over %T at %q", node, path)
							}
							v := vn.GetValueBytes()
							if len(v) != 4 || keyOf(int(v[2])) != string(path) {
								return fmt.Errorf("iteration yielded %q = %x, not a value of that key", path, v)
							}
							seen++
							return nil
						}, util.NodeTypeValueNode)
						if err != nil || seen != nkeys {
							fail("Iterate during updates: %d of %d keys, %v", seen, nkeys, err)
							return
						}
						continue
					}
					v, err := mpt.GetNodeValueRaw(util.Path(keyOf(i)))
					reads.Add(1)
					if err != nil {
						fail("lookup of %q, a key that is never removed, failed during updates: %v", keyOf(i), err)
						return
					}
					if len(v) != 4 || int(v[2]) != i || v[3] != 0x3a {
						fail("lookup of %q returned %x, not a value of that key", keyOf(i), v)
						return
					}
					if s := seqOf(v); s < last[i] {
						fail("lookup of %q returned the value of update %d after this reader had already seen update %d", keyOf(i), s, last[i])
						return
					} else {
						last[i] = s
					}
				}
			}()
		}
		wg.Wait()
		if failure != "" {
			rt.Fatalf("%s (keys %d, updates %d, readers %d)", failure, nkeys, nupd, nreaders)
		}
		ev.ExtraAdd("lookups_concurrent_with_updates", reads.Load())
		ev.Case(fmt.Sprintf("readers-during-updates/%d/%d/%d/%v", nkeys, nupd, nreaders, upd), true, "readers-during-updates")
	})
}

// A full iteration of a large trie (more than 65 536 handler calls) while one writer updates keys in a fixed order: what
// the iteration yields is the content at one moment, so the keys it shows with their new value are a prefix of the
// writer's order. Thorough tier only (the trie takes a while to build under the race detector).
func TestRaceBigIterationUnderAWriter(t *testing.T) {
	if !ev.Thorough() {
		ev.Case("big-iteration/skipped-in-quick", false, "big-iteration-thorough-only")
		return
	}
	seed := ev.SeedFor("TestRaceBigIterationUnderAWriter")
	n := 40000 + int(seed%2000)
	mpt := mptkit.NewTrie(util.NewMemoryNodeDB(), int64(seed%2), nil)
	key := func(i int) string { return fmt.Sprintf("%08x", uint32(i)*2654435761) }
	for i := 0; i < n; i++ {
		if _, err := mpt.Insert(util.Path(key(i)), mptkit.Val([]byte{0, byte(i), byte(i >> 8)})); err != nil {
			t.Fatalf("HARNESS: %v", err)
		}
	}
	order := map[string]int{}
	nw := 3000
	for j := 0; j < nw; j++ {
		order[key((j*7919)%n)] = j
	}
	var wg sync.WaitGroup
	start := make(chan struct{})
	wg.Add(1)
	go func() {
		defer wg.Done()
		<-start
		for j := 0; j < nw; j++ {
			if _, err := mpt.Insert(util.Path(key((j*7919)%n)), mptkit.Val([]byte{1, byte(j), byte(j >> 8)})); err != nil {
				return
			}
		}
	}()
	for round := 0; round < 3; round++ {
		if round == 1 {
			close(start)
		}
		updated := map[int]bool{}
		total := 0
		err := mpt.Iterate(context.Background(), func(ctx context.Context, path util.Path, k util.Key, node util.Node) error {
			if vn, ok := node.(*util.ValueNode); ok {
				total++
				if b := vn.GetValueBytes(); len(b) > 0 && b[0] == 1 {
					if j, ok := order[string(path)]; ok {
						updated[j] = true
					}
				}
			}
			return nil
		}, util.NodeTypeValueNode|util.NodeTypeLeafNode|util.NodeTypeFullNode|util.NodeTypeExtensionNode)
		if err != nil {
			t.Fatalf("iteration %d of a trie of %d keys under a writer: %v", round, n, err)
		}
		if total != n {
			t.Fatalf("iteration %d under a writer yields %d values, the trie has %d keys at every moment", round, total, n)
		}
		max := -1
		for j := range updated {
			if j > max {
				max = j
			}
		}
		// keys are updated in the order j = 0, 1, 2, ...; several j may name the same key (then the later one shows)
		for j := 0; j <= max; j++ {
			if !updated[j] && order[key((j*7919)%n)] == j {
				t.Fatalf("iteration %d shows the writer's update %d but not its earlier update %d: not the content of any one moment", round, max, j)
			}
		}
	}
	wg.Wait()
	ev.Case(fmt.Sprintf("big-iteration/%d", n), true, "iteration-of-40000-keys-under-a-writer")
}

// TestRaceIterationStoppedByItsHandler: an iteration that its own handler stops with an error, while a writer is waiting for
// the trie, returns; the writer then completes and the trie holds the writer's content. (An operation that never returns
// has no place in any sequential order. The handler parks for 20 ms so that the writer is queued when the error travels
// up through the branch nodes; the bound of 30 s is more than a thousand times that.)
func TestRaceIterationStoppedByItsHandler(t *testing.T) {
	seed := ev.SeedFor("TestRaceIterationStoppedByItsHandler")
	stop := errors.New("the handler has seen enough")
	for round := 0; round < 6; round++ {
		mpt := mptkit.NewTrie(util.NewMemoryNodeDB(), int64(seed%2), nil)
		n := 60 + int((seed+uint64(round)*37)%140)
		key := func(i int) string { return fmt.Sprintf("%08x", uint32(i)*2654435761) }
		for i := 0; i < n; i++ {
			if _, err := mpt.Insert(util.Path(key(i)), mptkit.Val([]byte{0, byte(i)})); err != nil {
				t.Fatalf("HARNESS: %v", err)
			}
		}
		stopAfter := 1 + int((seed>>8+uint64(round)*13)%uint64(n-1))
		parked := make(chan struct{})
		wrote := make(chan error, 1)
		go func() {
			<-parked
			_, err := mpt.Insert(util.Path(key(n+1)), mptkit.Val([]byte{1, 1}))
			wrote <- err
		}()
		returned := make(chan error, 1)
		go func() {
			seen := 0
			returned <- mpt.Iterate(context.Background(), func(context.Context, util.Path, util.Key, util.Node) error {
				seen++
				if seen == stopAfter {
					close(parked)
					time.Sleep(20 * time.Millisecond)
					return stop
				}
				return nil
			}, util.NodeTypeValueNode)
		}()
		select {
		case err := <-returned:
			if err == nil {
				t.Fatalf("round %d: an iteration of %d keys whose handler returned an error at value %d returned nil", round, n, stopAfter)
			}
		case <-time.After(30 * time.Second):
			t.Fatalf("round %d: an iteration of %d keys stopped by its handler at value %d, with a writer waiting for the trie, has not returned after 30 s", round, n, stopAfter)
		}
		select {
		case err := <-wrote:
			if err != nil {
				t.Fatalf("round %d: the insert that waited for the iteration: %v", round, err)
			}
		case <-time.After(30 * time.Second):
			t.Fatalf("round %d: the insert that waited for the stopped iteration has not returned after 30 s", round)
		}
		if v, err := mpt.GetNodeValueRaw(util.Path(key(n + 1))); err != nil || !bytes.Equal(v, []byte{1, 1}) {
			t.Fatalf("round %d: after the stopped iteration and the insert, lookup = %x, %v", round, v, err)
		}
		ev.Case(fmt.Sprintf("iteration-stopped-by-handler/%d/%d", n, stopAfter), true, "iteration-stopped-by-its-handler-while-a-writer-waits")
	}
}
