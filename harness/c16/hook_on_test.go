//go:build verif

package c16

import "github.com/0chain/common/core/util"

// installYield sets the verif-tag hook called at the entry of the change collector's read methods.
func installYield(f func(point string)) { util.VerifYield = f }

const haveYield = true
