//go:build verif

// C08 — cache answers stay correct under concurrent readers and committers.
package c08

import (
	"encoding/json"
	"fmt"
	"runtime"
	"strings"
	"sync"
	"sync/atomic"
	"testing"
	"time"

	"github.com/0chain/common/core/statecache"
	"pgregory.net/rapid"

	"verif/harness/internal/ev"
	"verif/harness/internal/gen"
)

func TestMain(m *testing.M) {
	ev.SetMeta(ev.Meta{
		Property: "C08", Level: "exploration",
		Rule: "(a) owned schedules: rapid draws a small committed context (a chain of 1..4 committed blocks, optionally a descendant of X committed before X, tombstones), one block X whose commit writes one key, and 1..2 concurrent lookups (at an ancestor, at X, at the pre-committed descendant, through an uncommitted child BlockCache of X or a QueryBlockCache; optionally two lookups in sequence). Every participant parks at each yield point of the verif hook (before every shared-map read/write of StateCache.Get and StateCache.commit); a cooperative scheduler releases exactly one at a time, so an execution is a pure function of (scenario, schedule). All interleavings are ENUMERATED by depth-first search up to a cap (quick 3000, thorough 12000 per scenario); above the cap additional rapid-drawn schedules are run. " +
			"Oracle: every hit equals the truth of the declared tree; a lookup that starts after Commit() returned, at X or a descendant with a committed chain, for the key X wrote, must hit X's value; the same lookups repeated after all participants finished must satisfy both. " +
			"(b) free-running executions under the race detector: 2..4 committer goroutines (one per chain, parents first) and 2..4 reader goroutines over a generated forked tree with drawn Gosched perturbation; every hit is judged against the declared truth, any race report fails the run, and all lookups are repeated after the join with must-hit expectations. " +
			"One evaluation = one executed schedule (a) or one free-running case (b). Non-trivial (a) = a schedule in which a reader step falls strictly between the committer's first value write and its link publication; (b) = committers and readers overlapped (measured by a shared phase counter). distinct = distinct (scenario, schedule).",
		Assumptions: []string{"(a) is exhaustive only at hook granularity (the LRU maps are internally locked, which is the atomicity the code has) and for at most two concurrent lookups against one committer", "X writes a single key in the owned-schedule part because Go's map iteration order inside commit is not under the harness's control", "(b) detects, it does not exhaust: schedules are whatever the Go scheduler plus perturbation produces"},
	})
	ev.Main(m)
}

// ---------- cooperative scheduler ----------

type part struct {
	resume  chan struct{}
	yielded chan string
	done    bool
}

type sched struct {
	parts    []*part
	cur      int
	trace    []string
	panicked string
}

// participantPanic is set by runSchedule when a participant of the last executed schedule panicked.
var participantPanic string

func (s *sched) hook(point, key, block string) {
	p := s.parts[s.cur]
	p.yielded <- point + "(" + key + "," + block + ")"
	<-p.resume
}

func (s *sched) spawn(f func()) {
	p := &part{resume: make(chan struct{}), yielded: make(chan string)}
	s.parts = append(s.parts, p)
	go func() {
		defer func() {
			// a panic inside the cache (or on an answer of the wrong type) ends this participant; the run is judged a violation
			if r := recover(); r != nil {
				s.panicked = fmt.Sprintf("%v", r)
				p.done = true
				p.yielded <- "done"
			}
		}()
		<-p.resume
		f()
		p.done = true
		p.yielded <- "done"
	}()
}

func (s *sched) step(i int) string {
	s.cur = i
	p := s.parts[i]
	p.resume <- struct{}{}
	l := <-p.yielded
	s.trace = append(s.trace, fmt.Sprintf("%d:%s", i, l))
	return l
}

func (s *sched) enabled() []int {
	var e []int
	for i, p := range s.parts {
		if !p.done {
			e = append(e, i)
		}
	}
	return e
}

// ---------- scenario ----------

type blockDecl struct {
	Hash, Prev string
	Key        string // "" = writes nothing
	Val        string
	Remove     bool
}

type lookup struct {
	Kind  string // state | query | child
	Block string // block hash looked at (for child: the child's prev)
	Key   string
}

type scenario struct {
	Pre     []blockDecl `json:"pre"` // committed before the race, in this order
	X       blockDecl   `json:"x"`
	Readers [][]lookup  `json:"readers"`
	// Prefill: 2000 unrelated blocks are committed first, so that the cache's link table is full when the race starts
	Prefill bool `json:"prefill,omitempty"`
}

func (sc *scenario) decl(h string) *blockDecl {
	if h == sc.X.Hash {
		return &sc.X
	}
	for i := range sc.Pre {
		if sc.Pre[i].Hash == h {
			return &sc.Pre[i]
		}
	}
	return nil
}

// truth over the declared tree (X included).
func (sc *scenario) truth(key, hash string) (val string, found, deleted bool) {
	for h := hash; h != ""; {
		b := sc.decl(h)
		if b == nil {
			return "", false, false
		}
		if b.Key == key {
			return b.Val, true, b.Remove
		}
		h = b.Prev
	}
	return "", false, false
}

// passesX: does the walk from hash reach X before finding key?
func (sc *scenario) passesX(key, hash string) bool {
	for h := hash; h != ""; {
		if h == sc.X.Hash {
			return true
		}
		b := sc.decl(h)
		if b == nil || b.Key == key {
			return false
		}
		h = b.Prev
	}
	return false
}

func genScenario(rt *rapid.T) *scenario {
	sc := &scenario{}
	keys := []string{"k", "j"}
	n := gen.Uniform(rt, 1, 4, "nchain")
	val := 0
	prev := ""
	for i := 0; i < n; i++ {
		b := blockDecl{Hash: fmt.Sprintf("A%d", i), Prev: prev}
		if gen.Chance(rt, 65, "awrites") {
			b.Key = gen.Pick(rt, keys, "akey")
			if gen.Chance(rt, 15, "arm") {
				b.Remove = true
			} else {
				val++
				b.Val = fmt.Sprintf("a%d", val)
			}
		}
		sc.Pre = append(sc.Pre, b)
		prev = b.Hash
	}
	// X sits on some block of the chain (a fork when not the tip)
	xp := sc.Pre[gen.Uniform(rt, 0, n-1, "xparent")].Hash
	if gen.Chance(rt, 70, "xontip") {
		xp = prev
	}
	sc.X = blockDecl{Hash: "X", Prev: xp, Key: gen.Pick(rt, keys, "xkey"), Val: "x1"}
	if gen.Chance(rt, 12, "xrm") {
		sc.X.Remove, sc.X.Val = true, ""
	}
	// a descendant of X committed before X (child before parent), maybe two
	nd := gen.Uniform(rt, 0, 2, "ndesc")
	dprev := "X"
	for i := 0; i < nd; i++ {
		d := blockDecl{Hash: fmt.Sprintf("D%d", i), Prev: dprev}
		if gen.Chance(rt, 30, "dwrites") {
			d.Key = gen.Pick(rt, keys, "dkey")
			val++
			d.Val = fmt.Sprintf("d%d", val)
		}
		sc.Pre = append(sc.Pre, d)
		dprev = d.Hash
	}
	var blocks []string
	for _, b := range sc.Pre {
		blocks = append(blocks, b.Hash)
	}
	blocks = append(blocks, "X", "X", "X")
	nr := gen.Uniform(rt, 1, 2, "nreaders")
	for r := 0; r < nr; r++ {
		nl := 1
		if gen.Chance(rt, 30, "twolookups") {
			nl = 2
		}
		var ls []lookup
		for i := 0; i < nl; i++ {
			l := lookup{Kind: gen.Pick(rt, []string{"state", "state", "query", "child"}, "lkind"), Block: gen.Pick(rt, blocks, "lblock"), Key: sc.X.Key}
			if gen.Chance(rt, 15, "otherkey") {
				l.Key = gen.Pick(rt, keys, "lkey")
			}
			ls = append(ls, l)
		}
		sc.Readers = append(sc.Readers, ls)
	}
	// small scenarios now and then run on a cache whose link table is already full
	if len(sc.Readers) == 1 && len(sc.Readers[0]) == 1 && gen.Chance(rt, 25, "prefill") {
		sc.Prefill = true
	}
	return sc
}

type result struct {
	val        string
	ok         bool
	afterDone  bool // the lookup started after Commit() had returned
	betweenAdd bool
}

func commitBlock(c *statecache.StateCache, b blockDecl) *statecache.BlockCache {
	bc := statecache.NewBlockCache(c, statecache.Block{Hash: b.Hash, PrevHash: b.Prev})
	if b.Key != "" {
		tc := statecache.NewTransactionCache(bc)
		if b.Remove {
			tc.Remove(b.Key)
		} else {
			tc.Set(b.Key, statecache.String(b.Val))
		}
		tc.Commit()
	}
	return bc
}

func doLookup(c *statecache.StateCache, l lookup) (string, bool) {
	var v statecache.Value
	var ok bool
	switch l.Kind {
	case "state":
		v, ok = c.Get(l.Key, l.Block)
	case "query":
		v, ok = statecache.NewQueryBlockCache(c, l.Block).Get(l.Key)
	default:
		child := statecache.NewBlockCache(c, statecache.Block{Hash: "child-of-" + l.Block, PrevHash: l.Block})
		v, ok = child.Get(l.Key)
	}
	if !ok {
		return "", false
	}
	return string(v.(statecache.String)), true
}

// runSchedule executes the scenario under the schedule given by choose.
func runSchedule(sc *scenario, choose func(step, nEnabled int) int) (choices, counts []int, res [][]result, final [][]result, trace []string, between bool) {
	c := statecache.NewStateCache()
	if sc.Prefill {
		for i := 0; i < 2000; i++ {
			prev := ""
			if i > 0 {
				prev = fmt.Sprintf("F%d", i-1)
			}
			commitBlock(c, blockDecl{Hash: fmt.Sprintf("F%d", i), Prev: prev}).Commit()
		}
	}
	for _, b := range sc.Pre {
		commitBlock(c, b).Commit()
	}
	x := commitBlock(c, sc.X)
	s := &sched{}
	statecache.VerifYield = s.hook
	defer func() { statecache.VerifYield = nil }()
	var commitDone bool
	res = make([][]result, len(sc.Readers))
	s.spawn(func() { x.Commit(); commitDone = true })
	for ri, ls := range sc.Readers {
		ri, ls := ri, ls
		res[ri] = make([]result, len(ls))
		s.spawn(func() {
			for i, l := range ls {
				after := commitDone
				v, ok := doLookup(c, l)
				res[ri][i] = result{val: v, ok: ok, afterDone: after}
			}
		})
	}
	valueWritten, linkPublished := false, false
	for step := 0; ; step++ {
		en := s.enabled()
		if len(en) == 0 {
			break
		}
		ch := choose(step, len(en))
		choices = append(choices, ch)
		counts = append(counts, len(en))
		who := en[ch]
		// the committer is parked *before* the access its last yield named; when it is resumed that access happens
		l := s.step(who)
		if who == 0 {
			// after this step the committer has executed everything up to the yield point l
			if strings.HasPrefix(l, "commit:keymap.add") {
				valueWritten = true
			}
			if l == "done" {
				linkPublished = true
			}
		} else if valueWritten && !linkPublished {
			between = true
		}
	}
	statecache.VerifYield = nil
	participantPanic = s.panicked
	final = make([][]result, len(sc.Readers))
	for ri, ls := range sc.Readers {
		for _, l := range ls {
			v, ok := doLookup(c, l)
			final[ri] = append(final[ri], result{val: v, ok: ok, afterDone: true})
		}
	}
	return choices, counts, res, final, s.trace, between
}

// judge returns a description of the first violation, or "".
func judge(sc *scenario, res, final [][]result) string {
	if participantPanic != "" {
		return "a participant panicked during the schedule: " + participantPanic
	}
	check := func(l lookup, r result, when string) string {
		want, found, deleted := sc.truth(l.Key, l.Block)
		if r.ok {
			if !found || deleted {
				return fmt.Sprintf("%s lookup %s@%s (%s) hit %q, truth: no live value", when, l.Key, l.Block, l.Kind, r.val)
			}
			if r.val != want {
				return fmt.Sprintf("%s lookup %s@%s (%s) hit %q, truth %q", when, l.Key, l.Block, l.Kind, r.val, want)
			}
			return ""
		}
		if r.afterDone && found && !deleted {
			return fmt.Sprintf("%s lookup %s@%s (%s) started after Commit() returned and missed; truth %q on a fully committed chain", when, l.Key, l.Block, l.Kind, want)
		}
		return ""
	}
	for ri, ls := range sc.Readers {
		for i, l := range ls {
			if m := check(l, res[ri][i], "concurrent"); m != "" {
				return m
			}
			if m := check(l, final[ri][i], "afterwards"); m != "" {
				return m
			}
		}
	}
	return ""
}

type replayCase struct {
	Scenario *scenario `json:"scenario"`
	Schedule []int     `json:"schedule"`
	What     string    `json:"what"`
	Trace    []string  `json:"trace"`
}

func exploreScenario(t interface {
	Fatalf(string, ...any)
}, sc *scenario, capN int, extra [][]int) (n int, exhaustive bool, interesting int) {
	var prefix []int
	report := func(choices []int, trace []string, what string) {
		b, _ := json.Marshal(sc)
		t.Fatalf("%s\nscenario %s\nschedule %v\ntrace %v", what, b, choices, trace)
	}
	scJSON, _ := json.Marshal(sc)
	for {
		choices, counts, res, final, trace, between := runSchedule(sc, func(step, n int) int {
			if step < len(prefix) {
				return prefix[step]
			}
			return 0
		})
		n++
		if between {
			interesting++
		}
		ev.Case(fmt.Sprintf("%s|%v", scJSON, choices), between, "schedule-enumerated")
		if what := judge(sc, res, final); what != "" {
			report(choices, trace, what)
		}
		i := len(choices) - 1
		for i >= 0 && choices[i]+1 >= counts[i] {
			i--
		}
		if i < 0 {
			exhaustive = true
			break
		}
		if n >= capN {
			break
		}
		prefix = append(append([]int{}, choices[:i]...), choices[i]+1)
	}
	if !exhaustive {
		for _, sched := range extra {
			choices, _, res, final, trace, between := runSchedule(sc, func(step, n int) int {
				if step < len(sched) {
					return sched[step] % n
				}
				return 0
			})
			n++
			if between {
				interesting++
			}
			ev.Case(fmt.Sprintf("%s|%v", scJSON, choices), between, "schedule-sampled")
			if what := judge(sc, res, final); what != "" {
				report(choices, trace, what)
			}
		}
	}
	return
}

func TestOwnedSchedules(t *testing.T) {
	var rc replayCase
	if ev.LoadReplay("TestOwnedSchedules", &rc) {
		_, _, res, final, trace, _ := runSchedule(rc.Scenario, func(step, n int) int {
			if step < len(rc.Schedule) {
				return rc.Schedule[step] % n
			}
			return 0
		})
		if what := judge(rc.Scenario, res, final); what != "" {
			t.Fatalf("%s\ntrace %v", what, trace)
		}
		return
	}
	ev.Rapid(t, 150, 250)
	capN := ev.N(3000, 12000)
	rapid.Check(t, func(rt *rapid.T) {
		sc := genScenario(rt)
		var extra [][]int
		for i := 0; i < 40; i++ {
			extra = append(extra, rapid.SliceOfN(rapid.IntRange(0, 5), 48, 48).Draw(rt, "sched"))
		}
		capHere := capN
		if sc.Prefill {
			capHere = 400 // every schedule of such a scenario commits 2000 blocks first
			extra = extra[:5]
		}
		n, exh, between := exploreScenario(rt, sc, capHere, extra)
		cls := []string{fmt.Sprintf("readers:%d", len(sc.Readers))}
		if exh {
			cls = append(cls, "scenario-exhaustively-scheduled")
		} else {
			cls = append(cls, "scenario-capped+sampled")
		}
		for _, ls := range sc.Readers {
			for _, l := range ls {
				switch {
				case l.Block == "X":
					cls = append(cls, "lookup-at-X")
				case strings.HasPrefix(l.Block, "D"):
					cls = append(cls, "lookup-at-descendant")
				default:
					cls = append(cls, "lookup-at-ancestor")
				}
				cls = append(cls, "lookup-via-"+l.Kind)
			}
		}
		if sc.Prefill {
			cls = append(cls, "link-table-full-before-the-race")
		}
		for _, c := range cls {
			ev.Class(c, 1)
		}
		ev.ExtraAdd("scenarios", 1)
		ev.ExtraAdd("schedules_with_reader_between_write_and_publish", int64(between))
		if ev.WantSample() {
			ev.Sample(map[string]any{"scenario": sc, "schedules_run": n, "exhaustive": exh, "reader_between_write_and_publish": between})
		}
	})
}

// The schedule class that used to fail, pinned: A (k=1) committed; X<-A (k=2) committing; one concurrent Get(k,X).
func TestWitnesses(t *testing.T) {
	ev.Witness(t, "C08-lookup-races-commit-stale-memo", func() string {
		sc := &scenario{Pre: []blockDecl{{Hash: "A0", Key: "k", Val: "1"}}, X: blockDecl{Hash: "X", Prev: "A0", Key: "k", Val: "2"}, Readers: [][]lookup{{{Kind: "state", Block: "X", Key: "k"}}}}
		what := ""
		func() {
			defer func() {
				if r := recover(); r != nil {
					what = fmt.Sprint(r)
				}
			}()
			exploreScenario(panicT{}, sc, 100000, nil)
		}()
		if what != "" {
			if i := strings.Index(what, "\nscenario"); i > 0 {
				what = what[:i]
			}
			return "A (k=1) committed; X<-A (k=2) committing with one concurrent Get(k,X): " + what
		}
		return ""
	})
}

type panicT struct{}

func (panicT) Fatalf(f string, a ...any) { panic(fmt.Sprintf(f, a...)) }

// ---------- (b) free-running under the race detector ----------

type fblock struct {
	Hash, Prev string
	Writes     map[string]string // key -> value ("" = remove)
	Chain      int
}

func TestRaceFreeRunning(t *testing.T) {
	ev.Rapid(t, 150, 2500)
	rapid.Check(t, func(rt *rapid.T) {
		nchains := gen.Uniform(rt, 2, 4, "nchains")
		keys := []string{"k0", "k1", "k2"}
		var blocks []fblock
		byHash := map[string]*fblock{}
		chains := make([][]int, nchains)
		val := 0
		root := fblock{Hash: "R", Writes: map[string]string{"k0": "r0"}, Chain: -1}
		blocks = append(blocks, root)
		for c := 0; c < nchains; c++ {
			prev := "R"
			n := gen.Uniform(rt, 2, 8, "chainlen")
			for i := 0; i < n; i++ {
				b := fblock{Hash: fmt.Sprintf("C%d_%d", c, i), Prev: prev, Writes: map[string]string{}, Chain: c}
				for _, k := range keys {
					if gen.Chance(rt, 45, "w") {
						if gen.Chance(rt, 15, "rm") {
							b.Writes[k] = ""
						} else {
							val++
							b.Writes[k] = fmt.Sprintf("v%d", val)
						}
					}
				}
				blocks = append(blocks, b)
				chains[c] = append(chains[c], len(blocks)-1)
				prev = b.Hash
			}
		}
		for i := range blocks {
			byHash[blocks[i].Hash] = &blocks[i]
		}
		truth := func(key, hash string) (string, bool, bool) {
			for h := hash; h != ""; {
				b := byHash[h]
				if b == nil {
					return "", false, false
				}
				if v, ok := b.Writes[key]; ok {
					return v, true, v == ""
				}
				h = b.Prev
			}
			return "", false, false
		}
		nreaders := gen.Uniform(rt, 2, 4, "nreaders")
		type rl struct {
			key, hash string
			yield     int
			via       int
		}
		rscripts := make([][]rl, nreaders)
		for r := range rscripts {
			for i := 0; i < gen.Uniform(rt, 6, 30, "nlook"); i++ {
				rscripts[r] = append(rscripts[r], rl{gen.Pick(rt, keys, "rk"), blocks[gen.Uniform(rt, 0, len(blocks)-1, "rb")].Hash, gen.Uniform(rt, 0, 3, "ry"), gen.Uniform(rt, 0, 2, "via")})
			}
		}
		cyield := rapid.SliceOfN(rapid.IntRange(0, 3), 64, 64).Draw(rt, "cyield")

		c := statecache.NewStateCache()
		var failMu sync.Mutex
		var failure string
		fail := func(s string) {
			failMu.Lock()
			if failure == "" {
				failure = s
			}
			failMu.Unlock()
		}
		// a block is executed by two transactions running in parallel (disjoint keys) while a
		// third goroutine looks keys up through the same BlockCache; then the block commits
		mkCommit := func(b *fblock) {
			// some blocks are created under a temporary hash and get their final hash while their transactions and
			// the reader are still at work (the hash is always set before the block commits)
			rename := len(b.Writes)%2 == 1
			first := b.Hash
			if rename {
				first = "tmp-" + b.Hash
			}
			bc := statecache.NewBlockCache(c, statecache.Block{Hash: first, PrevHash: b.Prev})
			var twg sync.WaitGroup
			if rename {
				twg.Add(1)
				go func() {
					defer twg.Done()
					runtime.Gosched()
					bc.SetBlockHash(b.Hash)
				}()
			}
			for half := 0; half < 2; half++ {
				half := half
				twg.Add(1)
				go func() {
					defer twg.Done()
					tc := statecache.NewTransactionCache(bc)
					for i, k := range keys {
						v, ok := b.Writes[k]
						if !ok || i%2 != half {
							continue
						}
						if v == "" {
							tc.Remove(k)
						} else {
							tc.Set(k, statecache.String(v))
						}
					}
					tc.Commit()
				}()
			}
			twg.Add(1)
			go func() {
				defer twg.Done()
				for _, k := range keys {
					got, ok := bc.Get(k)
					if !ok {
						continue
					}
					own, wrote := b.Writes[k]
					pv, pfound, pdel := truth(k, b.Prev)
					g := string(got.(statecache.String))
					if !(wrote && own != "" && g == own) && !(pfound && !pdel && g == pv) {
						fail(fmt.Sprintf("lookup %s through the executing block %s hit %q: neither its own write %q nor the parent chain's %q", k, b.Hash, g, own, pv))
					}
				}
				c.Stats()
			}()
			twg.Wait()
			bc.Commit()
			// a fifth of the blocks are executed a second time through another BlockCache object (same hash, same
			// writes); its commit finds the block committed and is ignored, while a reader still uses that object
			if (len(b.Hash)+len(b.Writes))%5 == 0 {
				bc2 := statecache.NewBlockCache(c, statecache.Block{Hash: b.Hash, PrevHash: b.Prev})
				tc := statecache.NewTransactionCache(bc2)
				for _, k := range keys {
					if v, ok := b.Writes[k]; ok {
						if v == "" {
							tc.Remove(k)
						} else {
							tc.Set(k, statecache.String(v))
						}
					}
				}
				tc.Commit()
				var dwg sync.WaitGroup
				dwg.Add(1)
				go func() {
					defer dwg.Done()
					for round := 0; round < 3; round++ {
						for _, k := range keys {
							got, ok := bc2.Get(k)
							if !ok {
								continue
							}
							own, wrote := b.Writes[k]
							pv, pfound, pdel := truth(k, b.Prev)
							g := string(got.(statecache.String))
							if !(wrote && own != "" && g == own) && !(pfound && !pdel && g == pv) {
								fail(fmt.Sprintf("lookup %s through the second execution of block %s hit %q: neither its own write %q nor the parent chain's %q", k, b.Hash, g, own, pv))
							}
						}
						runtime.Gosched()
					}
				}()
				bc2.Commit()
				dwg.Wait()
			}
		}
		mkCommit(&blocks[0])
		var wg sync.WaitGroup
		var phase, activeCommitters, overlapSeen atomic.Int64
		start := make(chan struct{})
		for ci := range chains {
			ci := ci
			wg.Add(1)
			go func() {
				defer wg.Done()
				defer func() {
					if r := recover(); r != nil {
						fail(fmt.Sprintf("committer panic: %v", r))
					}
				}()
				<-start
				activeCommitters.Add(1)
				for i, bi := range chains[ci] {
					for y := 0; y < cyield[(ci*16+i)%64]; y++ {
						runtime.Gosched()
					}
					mkCommit(&blocks[bi])
					phase.Add(1)
				}
				activeCommitters.Add(-1)
			}()
		}
		look := func(l rl) (string, bool) {
			var v statecache.Value
			var ok bool
			switch l.via {
			case 0:
				v, ok = c.Get(l.key, l.hash)
			case 1:
				v, ok = statecache.NewQueryBlockCache(c, l.hash).Get(l.key)
			default:
				v, ok = statecache.NewBlockCache(c, statecache.Block{Hash: "child", PrevHash: l.hash}).Get(l.key)
			}
			if !ok {
				return "", false
			}
			return string(v.(statecache.String)), true
		}
		for r := range rscripts {
			r := r
			wg.Add(1)
			go func() {
				defer wg.Done()
				defer func() {
					if rr := recover(); rr != nil {
						fail(fmt.Sprintf("reader panic: %v", rr))
					}
				}()
				<-start
				for _, l := range rscripts[r] {
					for y := 0; y < l.yield; y++ {
						runtime.Gosched()
					}
					if activeCommitters.Load() > 0 {
						overlapSeen.Add(1)
					}
					v, ok := look(l)
					if ok {
						want, found, del := truth(l.key, l.hash)
						if !found || del || v != want {
							fail(fmt.Sprintf("concurrent lookup %s@%s hit %q, truth %q (found=%v removed=%v)", l.key, l.hash, v, want, found, del))
						}
					}
				}
			}()
		}
		close(start)
		wg.Wait()
		if failure != "" {
			b, _ := json.Marshal(blocks)
			rt.Fatalf("%s\nblocks %s", failure, b)
		}
		// after the join everything is committed: every lookup must hit its truth
		for _, b := range blocks {
			for _, k := range keys {
				for via := 0; via < 3; via++ {
					v, ok := look(rl{key: k, hash: b.Hash, via: via})
					want, found, del := truth(k, b.Hash)
					switch {
					case ok && (!found || del || v != want):
						rt.Fatalf("after join: lookup %s@%s hit %q, truth %q (found=%v removed=%v)", k, b.Hash, v, want, found, del)
					case !ok && found && !del:
						rt.Fatalf("after join: lookup %s@%s missed, truth %q on a fully committed chain", k, b.Hash, want)
					}
				}
			}
		}
		nt := overlapSeen.Load() > 0 && nchains >= 2
		cls := []string{"free-running"}
		if nt {
			cls = append(cls, "committers-and-readers-overlapped")
		}
		bj, _ := json.Marshal(blocks)
		ev.Case(string(bj)+fmt.Sprint(rscripts, cyield), nt, cls...)
		if nt && ev.WantSample() {
			ev.Sample(map[string]any{"free_running_chains": nchains, "readers": nreaders, "blocks": len(blocks), "reader_lookups_while_committing": overlapSeen.Load()})
		}
	})
}

// A state cache whose link table is full (more than 2000 blocks in one chain): readers walk from the tip until they give
// up, ask the writing blocks themselves, and ask the blocks a committer is adding on top at the same time. Under the
// race detector; every hit must be the chain's value, a block's own committed write must be found.
func TestRaceFullLinkTable(t *testing.T) {
	seed := ev.SeedFor("TestRaceFullLinkTable")
	n := 2003 + int(seed%30)
	c := statecache.NewStateCache()
	commit := func(hash, prev, key, val string) {
		bc := statecache.NewBlockCache(c, statecache.Block{Hash: hash, PrevHash: prev})
		tc := statecache.NewTransactionCache(bc)
		if key != "" {
			tc.Set(key, statecache.String(val))
		}
		tc.Commit()
		bc.Commit()
	}
	commit("L0", "", "k", "v0")
	for i := 1; i < n; i++ {
		commit(fmt.Sprintf("L%d", i), fmt.Sprintf("L%d", i-1), "", "")
	}
	var mu sync.Mutex
	failure := ""
	fail := func(f string, a ...any) {
		mu.Lock()
		if failure == "" {
			failure = fmt.Sprintf(f, a...)
		}
		mu.Unlock()
	}
	var tip atomic.Int64
	tip.Store(int64(n - 1))
	done := make(chan struct{})
	var wg sync.WaitGroup
	for r := 0; r < 3; r++ {
		wg.Add(1)
		go func(r int) {
			defer wg.Done()
			defer func() {
				if p := recover(); p != nil {
					fail("reader panic: %v", p)
				}
			}()
			for i := 0; ; i++ {
				select {
				case <-done:
					return
				default:
				}
				top := tip.Load()
				// from the tip: k was written more than 2000 links back; a hit must still be v0
				if v, ok := c.Get("k", fmt.Sprintf("L%d", top)); ok && string(v.(statecache.String)) != "v0" {
					fail("lookup k@L%d hit %q, the chain says v0", top, string(v.(statecache.String)))
					return
				}
				// the committer's blocks: a block's own write is there once its commit has returned
				if top >= int64(n) {
					j := int64(n) + int64(i+r)%(top-int64(n)+1)
					want := fmt.Sprintf("w%d", j)
					if v, ok := c.Get(fmt.Sprintf("j%d", j), fmt.Sprintf("L%d", j)); !ok || string(v.(statecache.String)) != want {
						fail("lookup j%d@L%d = %v, %v after that block's commit returned; it wrote %q", j, j, v, ok, want)
						return
					}
				}
			}
		}(r)
	}
	// first the chain stands still: every walk from the tip runs through the 2000 links there are and gives up, while
	// the counters are polled
	for i := 0; i < 300; i++ {
		c.Stats()
		time.Sleep(100 * time.Microsecond)
	}
	for j := n; j < n+60; j++ {
		commit(fmt.Sprintf("L%d", j), fmt.Sprintf("L%d", j-1), fmt.Sprintf("j%d", j), fmt.Sprintf("w%d", j))
		tip.Store(int64(j))
		if j%8 == 0 {
			c.Stats()
		}
	}
	close(done)
	wg.Wait()
	if failure != "" {
		t.Fatalf("chain of %d+60 blocks: %s", n, failure)
	}
	ev.Case(fmt.Sprintf("full-link-table/%d", n), true, "readers-and-committer-on-a-full-link-table")
}
