// C07 — cache writes are private until commit and values are never shared.
package c07

import (
	"encoding/hex"
	"encoding/json"
	"fmt"
	"strings"
	"testing"

	"github.com/0chain/common/core/statecache"
	"github.com/0chain/common/core/util"
	"pgregory.net/rapid"

	"verif/harness/internal/ev"
	"verif/harness/internal/gen"
	"verif/harness/internal/sctree"
)

func TestMain(m *testing.M) {
	ev.SetMeta(ev.Meta{
		Property: "C07", Level: "exploration",
		Rule: "same declared-tree/schedule generator as C06 without gap parents (forks, abandoned transactions and blocks, out-of-order block commits, double execution), run with mutable value types: a harness type with deep Clone/CopyFrom, real trie nodes (leaf, branch, extension, value node) and String. After every Set the harness scribbles on the object it handed in; after a Get it either scribbles on the returned object or keeps it to verify at the end that it still reads the same. " +
			"Oracle (time-aware): a hit must equal own pending writes, then the block's pending writes, then the first write/tombstone along parent links passing ONLY through blocks committed so far (so any write visible before its transaction/block committed is a violation); where that walk finds a live value the lookup MUST hit (sizes are far below capacity); all content comparisons are against the model's pristine strings. " +
			"Blocks may write directly on their block cache before their transactions; 30% of the writes store a value the key had before; a fifth of the trees are quiet chains of 22..60 blocks (answers 20+ links back); trie-node values carry separator bytes and a version different from their origin. Non-trivial = an abandoned or not-yet-committed transaction coexisted with a committed write, and both a scribble-after-set and a scribble-after-get happened on a mutable type before a later read; distinct = distinct (value type, tree, schedule log).",
		Assumptions: []string{"a BlockCache/TransactionCache is not used for lookups after its block was committed", "sizes stay far below the cache capacities, so capacity eviction cannot excuse a miss", "StateCache.Remove is not drawn"},
	})
	ev.Main(m)
}

// MutVal is a mutable cache value with correct deep copies.
type MutVal struct{ B []byte }

func (m *MutVal) Clone() statecache.Value { return &MutVal{B: append([]byte(nil), m.B...)} }
func (m *MutVal) CopyFrom(v interface{}) bool {
	o, ok := v.(*MutVal)
	if !ok {
		return false
	}
	m.B = append([]byte(nil), o.B...)
	return true
}

type valueKind struct {
	name    string
	mutable bool
	hooks   sctree.Hooks
}

// pay wraps a model value into node-value bytes that contain the node encoding's separator and a zero byte;
// unpay recovers it (anything that does not have the two equal halves reads as corrupt).
func pay(v string) []byte { return []byte(v + ":\x00:" + v) }

func unpay(b []byte) string {
	parts := strings.Split(string(b), ":\x00:")
	if len(parts) != 2 || parts[0] != parts[1] {
		return fmt.Sprintf("<corrupt value bytes %q>", b)
	}
	return parts[0]
}

func ssv(b []byte) *util.SecureSerializableValue {
	return &util.SecureSerializableValue{Buffer: append([]byte(nil), b...)}
}

func scribble(b []byte) {
	for i := range b {
		b[i] ^= 0x5a
	}
}

func kinds() []valueKind {
	child := func(val string) []byte {
		k := make([]byte, 32)
		copy(k, val)
		return k
	}
	return []valueKind{
		{"String", false, sctree.Hooks{
			Make: func(v string) statecache.Value { return statecache.String(v) },
			Read: func(v statecache.Value) string { return string(v.(statecache.String)) },
		}},
		{"MutVal", true, sctree.Hooks{
			Make:   func(v string) statecache.Value { return &MutVal{B: []byte(v)} },
			Read:   func(v statecache.Value) string { return string(v.(*MutVal).B) },
			Mutate: func(v statecache.Value) { scribble(v.(*MutVal).B) },
		}},
		{"LeafNode", true, sctree.Hooks{
			Make: func(v string) statecache.Value {
				ln := util.NewLeafNode(util.Path("ab"), util.Path("cd"+hex.EncodeToString([]byte(v))), 3, ssv(pay(v)))
				ln.SetVersion(util.Sequence(4 + len(v))) // a copy carries origin and version, and they differ here
				return ln
			},
			Read: func(v statecache.Value) string {
				ln := v.(*util.LeafNode)
				p, _ := hex.DecodeString(string(ln.Path[2:]))
				if string(ln.Prefix) != "ab" || string(ln.Path[:2]) != "cd" || string(p) != unpay(ln.GetValueBytes()) {
					return fmt.Sprintf("<corrupt leaf prefix=%q path=%q value=%q>", ln.Prefix, ln.Path, ln.GetValueBytes())
				}
				if ln.GetOrigin() != 3 || ln.GetVersion() != util.Sequence(4+len(p)) {
					return fmt.Sprintf("<leaf %q with origin %d version %d, handed in with origin 3 version %d>", p, ln.GetOrigin(), ln.GetVersion(), 4+len(p))
				}
				return unpay(ln.GetValueBytes())
			},
			Mutate: func(v statecache.Value) {
				ln := v.(*util.LeafNode)
				scribble(ln.Path)
				scribble(ln.Prefix)
				if s, ok := ln.GetValue().(*util.SecureSerializableValue); ok {
					scribble(s.Buffer)
				}
				ln.SetOrigin(99)
			},
		}},
		{"FullNode", true, sctree.Hooks{
			Make: func(v string) statecache.Value {
				fn := util.NewFullNode(ssv(pay(v)))
				fn.PutChild('a', child(v))
				fn.SetOrigin(7)
				fn.SetVersion(util.Sequence(1<<40 + len(v)))
				return fn
			},
			Read: func(v statecache.Value) string {
				fn := v.(*util.FullNode)
				val := unpay(fn.GetValueBytes())
				if string(fn.GetChild('a')) != string(child(val)) || fn.GetNumChildren() != 1 {
					return fmt.Sprintf("<corrupt branch value=%q child=%x>", val, fn.GetChild('a'))
				}
				if fn.GetOrigin() != 7 || fn.GetVersion() != util.Sequence(1<<40+len(val)) {
					return fmt.Sprintf("<branch %q with origin %d version %d, handed in with origin 7 version %d>", val, fn.GetOrigin(), fn.GetVersion(), 1<<40+len(val))
				}
				return val
			},
			Mutate: func(v statecache.Value) {
				fn := v.(*util.FullNode)
				scribble(fn.GetChild('a'))
				if s, ok := fn.GetValue().(*util.SecureSerializableValue); ok {
					scribble(s.Buffer)
				}
				fn.PutChild('b', child("x"))
			},
		}},
		{"ExtensionNode", true, sctree.Hooks{
			Make: func(v string) statecache.Value {
				en := util.NewExtensionNode(util.Path(hex.EncodeToString([]byte(v))), child(v))
				en.SetOrigin(11)
				en.SetVersion(12)
				return en
			},
			Read: func(v statecache.Value) string {
				en := v.(*util.ExtensionNode)
				p, _ := hex.DecodeString(string(en.Path))
				if string(en.NodeKey) != string(child(string(p))) {
					return fmt.Sprintf("<corrupt extension path=%q key=%x>", en.Path, en.NodeKey)
				}
				if en.GetOrigin() != 11 || en.GetVersion() != 12 {
					return fmt.Sprintf("<extension %q with origin %d version %d, handed in with 11 and 12>", p, en.GetOrigin(), en.GetVersion())
				}
				return string(p)
			},
			Mutate: func(v statecache.Value) {
				en := v.(*util.ExtensionNode)
				scribble(en.Path)
				scribble(en.NodeKey)
			},
		}},
		{"ValueNode", true, sctree.Hooks{
			Make: func(v string) statecache.Value {
				vn := util.NewValueNode()
				vn.SetValue(ssv(pay(v)))
				return vn
			},
			Read: func(v statecache.Value) string { return unpay(v.(*util.ValueNode).GetValueBytes()) },
			Mutate: func(v statecache.Value) {
				if s, ok := v.(*util.ValueNode).GetValue().(*util.SecureSerializableValue); ok {
					scribble(s.Buffer)
				}
			},
		}},
	}
}

func TestPrivateUntilCommitAndCopies(t *testing.T) {
	ev.Rapid(t, 6000, 60000)
	ks := kinds()
	rapid.Check(t, func(rt *rapid.T) {
		vk := gen.Pick(rt, ks, "valuekind")
		h := vk.hooks
		h.TimeAware = true
		h.MaxLookupBlocks = 80 // capacity (200 entries per key, remembered answers included) is C06's matter: see its known findings
		tree := sctree.Gen(rt, sctree.Params{MaxBlocks: gen.Pick(rt, []int{3, 6, 12, 24}, "maxblocks"), MaxKeys: 3, Forks: true, Abandoned: true, Twice: true})
		r := sctree.NewRunner(rt, tree, h)
		r.Run(gen.Uniform(rt, 10, 40+4*len(tree.Blocks), "nsteps"))
		nt := vk.mutable && (r.AbandonedTxnSeen || r.OutOfOrderCommit || r.AbandonedBlockSeen) && r.MutatedAfterSet > 0 && r.MutatedAfterGet > 0 && r.Hits > 0
		cls := []string{"value:" + vk.name}
		add := func(b bool, s string) {
			if b {
				cls = append(cls, s)
			}
		}
		add(r.AbandonedTxnSeen, "abandoned-txn")
		add(r.AbandonedBlockSeen, "abandoned-block")
		add(r.OutOfOrderCommit, "out-of-order-commit")
		add(r.DoubleCommit, "double-commit")
		add(r.MutatedAfterSet > 0, "mutate-after-set")
		add(r.MutatedAfterGet > 0, "mutate-after-get")
		add(r.MustHits > 0, "must-hit-expectations")
		add(r.TombstoneHit, "remove-on-path")
		b, _ := json.Marshal(tree.Blocks)
		ev.Case(vk.name+string(b)+fmt.Sprint(r.Log), nt, cls...)
		ev.ExtraAdd("lookups", int64(r.Lookups))
		ev.ExtraAdd("hits", int64(r.Hits))
		ev.ExtraAdd("direct_block_writes", int64(r.DirectBlockWrites))
		ev.ExtraAdd("lookups_answered_20_or_more_links_back", int64(r.DeepWalks))
		ev.ExtraAdd("lookups_answered_100_or_more_links_back", int64(r.VeryDeepWalks))
		ev.ExtraAdd("must_hit_lookups", int64(r.MustHits))
		if nt && ev.WantSample() {
			lg := r.Log
			if len(lg) > 60 {
				lg = lg[:60]
			}
			ev.Sample(map[string]any{"value_type": vk.name, "blocks": tree.Blocks, "schedule_head": lg, "hits": r.Hits})
		}
	})
}

// A chain longer than the 2000 links a lookup is willing to walk: a lookup from the tip may give up (a miss), but what a
// block wrote is still found at that block afterwards - the key's own table holds two entries, nothing of it was
// evicted for capacity (the links of the oldest blocks are: the link table keeps 2000, so descendants are not asked).
func TestBeyondTheHistoryWindow(t *testing.T) {
	ev.Guard(t, "TestBeyondTheHistoryWindow", func() {
		seed := ev.SeedFor("TestBeyondTheHistoryWindow")
		n := 2003 + int(seed%40)
		sc := statecache.NewStateCache()
		commit := func(hash, prev string, w func(tc *statecache.TransactionCache)) {
			bc := statecache.NewBlockCache(sc, statecache.Block{Hash: hash, PrevHash: prev})
			tc := statecache.NewTransactionCache(bc)
			if w != nil {
				w(tc)
			}
			tc.Commit()
			bc.Commit()
		}
		commit("B0", "", func(tc *statecache.TransactionCache) { tc.Set("k", statecache.String("v0")) })
		commit("F", "B0", func(tc *statecache.TransactionCache) { tc.Set("k", statecache.String("vF")) })
		for i := 1; i < n; i++ {
			commit(fmt.Sprintf("B%d", i), fmt.Sprintf("B%d", i-1), nil)
		}
		tip := fmt.Sprintf("B%d", n-1)
		if v, ok := sc.Get("k", tip); ok && string(v.(statecache.String)) != "v0" {
			t.Fatalf("lookup k@%s (%d links above the write) hits %q, the chain says v0", tip, n-1, string(v.(statecache.String)))
		}
		for _, c := range []struct{ at, want string }{{"B0", "v0"}, {"F", "vF"}, {"B0", "v0"}} {
			v, ok := sc.Get("k", c.at)
			if !ok || string(v.(statecache.String)) != c.want {
				t.Fatalf("after a lookup from the tip of a %d-block chain gave up: lookup k@%s = %v, %v; %s committed %q and nothing was evicted", n, c.at, v, ok, c.at, c.want)
			}
		}
		ev.Case(fmt.Sprintf("window/%d", n), true, "chain-longer-than-the-history-window")
	})
}

// Blocks under unusual names and numbers: a root block committed under the empty hash (the zero Block, a generator's
// block before it has a hash) and round numbers that jump by thousands between consecutive blocks. Chains are committed
// in order, nothing is evicted (a handful of blocks and keys), so every lookup at every block must hit exactly what the
// chain says. (A block cache that is given a new hash and committed a second time is not part of this: the unchanged
// library ignores the second commit of an object.)
func TestUnusualBlockNamesAndRounds(t *testing.T) {
	ev.Rapid(t, 400, 5000)
	rapid.Check(t, func(rt *rapid.T) {
		sc := statecache.NewStateCache()
		n := gen.Uniform(rt, 2, 7, "nblocks")
		emptyRoot := gen.Chance(rt, 50, "emptyroot")
		keys := []string{"a", "b"}
		type blk struct {
			hash  string
			round int64
			state map[string]string // visible content at this block ("" value = removed)
		}
		var chain []blk
		round := int64(gen.Uniform(rt, 0, 3, "round0"))
		var log []string
		for i := 0; i < n; i++ {
			b := blk{hash: fmt.Sprintf("N%d", i), round: round, state: map[string]string{}}
			prev := ""
			if i == 0 && emptyRoot {
				b.hash = ""
			}
			if i > 0 {
				prev = chain[i-1].hash
				for k, v := range chain[i-1].state {
					b.state[k] = v
				}
			}
			bc := statecache.NewBlockCache(sc, statecache.Block{Round: b.round, Hash: b.hash, PrevHash: prev})
			write := func(tag string) {
				tc := statecache.NewTransactionCache(bc)
				for _, k := range keys {
					switch gen.Uniform(rt, 0, 3, "w") {
					case 0:
						v := fmt.Sprintf("%s%d%s", k, i, tag)
						tc.Set(k, statecache.String(v))
						b.state[k] = v
						log = append(log, fmt.Sprintf("%q: %s=%s", b.hash, k, v))
					case 1:
						tc.Remove(k)
						b.state[k] = ""
						log = append(log, fmt.Sprintf("%q: remove %s", b.hash, k))
					}
				}
				tc.Commit()
			}
			write("")
			bc.Commit()
			chain = append(chain, b)
			// the next block's number: the next one, or thousands later
			round += int64(gen.Pick(rt, []int{1, 1, 1, 2, 1999, 2000, 2001, 5000, 100000}, "dround"))
		}
		for q := gen.Uniform(rt, 4, 12, "nlookups"); q > 0; q-- {
			b := gen.Pick(rt, chain, "at")
			k := gen.Pick(rt, keys, "k")
			v, ok := sc.Get(k, b.hash)
			want := b.state[k]
			if (want == "") != !ok || (ok && string(v.(statecache.String)) != want) {
				rt.Fatalf("%v\nlookup %s@%q (round %d) = %v, %v; the chain says %q (everything is committed, nothing evicted)", log, k, b.hash, b.round, v, ok, want)
			}
		}
		cls := []string{"unusual-names-and-rounds"}
		if emptyRoot {
			cls = append(cls, "root-block-under-the-empty-hash")
		}
		ev.Case(fmt.Sprint(log), emptyRoot && n >= 3, cls...)
	})
}
