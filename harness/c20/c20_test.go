// C20 — the in-memory log buffer keeps the most recent entries of all loggers.
package c20

import (
	"bytes"
	"fmt"
	"net/http"
	"net/http/httptest"
	"regexp"
	"runtime"
	"strconv"
	"strings"
	"sync"
	"testing"
	"time"

	"github.com/0chain/common/core/logging"
	"go.uber.org/zap"
	"go.uber.org/zap/zapcore"
	"pgregory.net/rapid"

	"verif/harness/internal/ev"
	"verif/harness/internal/gen"
)

func TestMain(m *testing.M) {
	ev.SetMeta(ev.Meta{
		Property: "C20", Level: "exploration",
		Rule: "sequential part: rapid draws histories over one MemLogger: write through core j (directly through Core.Write or through a zap.Logger built on it, including entries below the level enabler, which must not be recorded), derive a new core from core j (Core.With, or zap.Logger.With) before any write, mid-stream and after wrap-around, read (GetLogs), print (WriteLogs at detail 1..3); the total number of accepted writes is drawn from {0..20, 1000..1050 (around the capacity 1024), 2100..4000}. Oracle: the global list of accepted writes (message = global sequence number); every GetLogs result, evaluated when it returns, equals the last min(total,1024) entries newest first, and WriteLogs prints the same messages in the same order. " +
			"Concurrent part (race detector on): 2..8 goroutines, each owning the root core or a derived core, write numbered entries while reader goroutines call GetLogs and inspect what they get; after the join GetLogs must hold min(total,1024) entries, no duplicates, only written entries, per goroutine a newest-first suffix of its writes, and everything when total <= 1024; any race report fails the run. " +
			"A plain test drives the package's own wiring: InitLogging, entries through the three global loggers and loggers derived from them, and the three HTTP handlers at detail 0..3 (below, at and above the capacity). Non-trivial = a derived core was created after at least one write and both it and its parent wrote afterwards, or total > 1024; distinct = distinct history.",
		Assumptions: []string{"fields attached by With are not part of a retained entry and are not compared", "what happens later to slices returned by earlier reads is judged only in the concurrent part (by the race detector)"},
	})
	ev.Main(m)
}

func newLogger() *logging.MemLogger {
	ml, _ := newLoggerWithLevel()
	return ml
}

func newLoggerWithLevel() (*logging.MemLogger, zap.AtomicLevel) {
	cfg := zap.NewProductionEncoderConfig()
	lvl := zap.NewAtomicLevelAt(zapcore.InfoLevel)
	return logging.NewMemLogger(zapcore.NewJSONEncoder(cfg), lvl), lvl
}

func messages(ml *logging.MemLogger) []string {
	var out []string
	for _, e := range ml.GetLogs() {
		if e == nil {
			out = append(out, "<nil>")
			continue
		}
		out = append(out, e.Message)
	}
	return out
}

func expect(total int) []string {
	n := total
	if n > logging.BufferSize {
		n = logging.BufferSize
	}
	out := make([]string, 0, n)
	for i := 0; i < n; i++ {
		out = append(out, strconv.Itoa(total-i))
	}
	return out
}

func diff(got, want []string) string {
	if len(got) != len(want) {
		return fmt.Sprintf("%d entries, want %d (head got %v want %v)", len(got), len(want), head(got), head(want))
	}
	for i := range got {
		if got[i] != want[i] {
			lo := i - 2
			if lo < 0 {
				lo = 0
			}
			hi := i + 3
			if hi > len(got) {
				hi = len(got)
			}
			return fmt.Sprintf("position %d: got %v, want %v", i, got[lo:hi], want[lo:hi])
		}
	}
	return ""
}

func head(s []string) []string {
	if len(s) > 5 {
		return s[:5]
	}
	return s
}

type core struct {
	c       zapcore.Core
	lg      *zap.Logger
	derived bool
	born    int // total writes when it was created
	wrote   bool
}

func TestSequential(t *testing.T) {
	ev.Rapid(t, 400, 6000)
	rapid.Check(t, func(rt *rapid.T) {
		ml, lvl := newLoggerWithLevel()
		debugOn, levelSwitches := false, 0
		// a field list the caller owns and passes again and again (with fields that produce no output in it)
		reused := []zap.Field{zap.String("user", "alice"), zap.Skip(), zap.Error(nil), zap.String("op", "read")}
		withReused := map[string]bool{}
		cores := []*core{{c: ml.GetCore(), lg: zap.New(ml.GetCore())}}
		target := gen.Pick(rt, []func() int{
			func() int { return gen.Uniform(rt, 0, 20, "tsmall") },
			func() int { return gen.Uniform(rt, 0, 20, "tsmall2") },
			func() int { return gen.Uniform(rt, 1000, 1050, "tcap") },
			func() int { return gen.Uniform(rt, 2100, 4000, "tbig") },
		}, "tclass")()
		total := 0
		var hist []string
		failf := func(f string, a ...any) {
			h := hist
			if len(h) > 40 {
				h = append(append([]string{}, h[:20]...), append([]string{"..."}, h[len(h)-20:]...)...)
			}
			rt.Fatalf("%s\nhistory (%d steps): %s", fmt.Sprintf(f, a...), len(hist), strings.Join(h, "; "))
		}
		// entries without any message (and without fields of their own) take a slot like every other entry
		blank := map[int]bool{}
		odd := map[int]string{} // entries whose message is not just their number
		bigEntries, lateWrites := 0, 0
		expect := func(total int) []string {
			out := expect(total)
			for i := range out {
				if blank[total-i] {
					out[i] = ""
				}
				if m, ok := odd[total-i]; ok {
					out[i] = m
				}
			}
			return out
		}
		check := func(when string) {
			if d := diff(messages(ml), expect(total)); d != "" {
				failf("%s: GetLogs after %d accepted writes: %s", when, total, d)
			}
			for _, e := range ml.GetLogs() {
				if e == nil || !withReused[e.Message] {
					continue
				}
				var got []string
				for _, f := range e.Context {
					if f.Type != zapcore.SkipType {
						got = append(got, f.Key+"="+f.String)
					}
				}
				if fmt.Sprint(got) != "[user=alice op=read]" {
					failf("%s: entry %s was written with the fields user=alice, op=read (and two fields that produce no output); it is retained with %v", when, e.Message, got)
				}
			}
		}
		deriveMid, parentAndChildWrote := false, false
		// long histories write in bursts between the interesting steps
		lastRead, fullTurns := -1, 0 // accepted writes at the last GetLogs/WriteLogs; reads exactly k*1024 writes after the previous one
		forceRead := false
		for total < target || len(hist) < 3 || forceRead {
			k := gen.Pct(rt, "op")
			if forceRead {
				k = 90
				forceRead = false
			}
			switch {
			case k < 70:
				burst := 1
				if target > 100 {
					burst = gen.Uniform(rt, 1, 300, "burst")
				}
				ci := gen.Uniform(rt, 0, len(cores)-1, "wc")
				c := cores[ci]
				via := gen.Pick(rt, []string{"core", "logger", "below-level"}, "via")
				limit := target + 1
				if target > 100 && lastRead >= 0 && gen.Chance(rt, 25, "fullturn") {
					// bring the number of writes since the last read to an exact multiple of the capacity, then read
					burst = logging.BufferSize - (total-lastRead)%logging.BufferSize
					via = gen.Pick(rt, []string{"core", "logger"}, "via2")
					limit = total + burst + 1
					forceRead = true
					fullTurns++
				}
				if !forceRead && gen.Chance(rt, 12, "special") {
					burst = 1
					via = gen.Pick(rt, []string{"core-blank", "logger-blank", "logger-big", "logger-reused-fields", "logger-reused-fields", "switch-level", "logger-percent", "check-then-level-up-then-write"}, "via3")
				}
				if via == "switch-level" {
					// the enabler is switched at run time: from now on debug entries count (or no longer do), through
					// loggers derived before the switch as well
					debugOn = !debugOn
					levelSwitches++
					if debugOn {
						lvl.SetLevel(zapcore.DebugLevel)
					} else {
						lvl.SetLevel(zapcore.InfoLevel)
					}
					hist = append(hist, fmt.Sprintf("debug entries enabled: %v", debugOn))
					continue
				}
				hist = append(hist, fmt.Sprintf("write x%d via %s on core %d", burst, via, ci))
				for b := 0; b < burst && total < limit; b++ {
					switch via {
					case "core":
						total++
						if err := c.c.Write(zapcore.Entry{Level: zapcore.InfoLevel, Message: strconv.Itoa(total)}, nil); err != nil {
							failf("Write: %v", err)
						}
					case "logger":
						total++
						c.lg.Info(strconv.Itoa(total), zap.Int("n", total))
					case "core-blank":
						total++
						blank[total] = true
						if err := c.c.Write(zapcore.Entry{Level: zapcore.InfoLevel}, nil); err != nil {
							failf("Write: %v", err)
						}
					case "logger-blank":
						total++
						blank[total] = true
						c.lg.Info("")
					case "logger-big":
						// one entry whose text is far longer than any buffer a dump may use (a dumped payload)
						total++
						bigEntries++
						c.lg.Info(strconv.Itoa(total), zap.String("payload", strings.Repeat("p", gen.Pick(rt, []int{4096, 32768, 40000, 70000}, "biglen"))))
					case "logger-percent":
						// text that a formatting function would read as directives
						total++
						odd[total] = fmt.Sprintf("%d is 50%% done %%d %%s %%!", total)
						c.lg.Info(odd[total], zap.String("progress", "100%"))
					case "check-then-level-up-then-write":
						// the two-step form of logging: the entry is accepted by Check; what happens to the level before the
						// caller completes it with Write no longer matters
						total++
						ce := c.lg.Check(zapcore.InfoLevel, strconv.Itoa(total))
						if ce == nil {
							failf("Check refused an info entry while the level is %v", lvl.Level())
						}
						was := lvl.Level()
						lvl.SetLevel(zapcore.ErrorLevel)
						ce.Write(zap.Int("n", total))
						lvl.SetLevel(was)
						lateWrites++
					case "logger-reused-fields":
						total++
						withReused[strconv.Itoa(total)] = true
						c.lg.Info(strconv.Itoa(total), reused...)
					default:
						if debugOn {
							total++
							c.lg.Debug(strconv.Itoa(total))
							continue
						}
						c.lg.Debug("below the enabler") // must not be recorded
						if ce := c.c.Check(zapcore.Entry{Level: zapcore.DebugLevel, Message: "below the enabler"}, nil); ce != nil {
							ce.Write()
						}
					}
				}
				c.wrote = true
				if c.derived {
					for _, p := range cores {
						if !p.derived && p.wrote && c.born > 0 {
							parentAndChildWrote = true
						}
					}
				}
			case k < 82:
				pi := gen.Uniform(rt, 0, len(cores)-1, "dp")
				p := cores[pi]
				n := &core{derived: true, born: total}
				if gen.Chance(rt, 50, "vialogger") {
					n.lg = p.lg.With(zap.String("who", fmt.Sprintf("d%d", len(cores))))
					n.c = n.lg.Core()
				} else {
					n.c = p.c.With([]zapcore.Field{zap.Int("d", len(cores))})
					n.lg = zap.New(n.c)
				}
				cores = append(cores, n)
				hist = append(hist, fmt.Sprintf("derive core %d from core %d at %d writes", len(cores)-1, pi, total))
				if total > 0 {
					deriveMid = true
				}
			case k < 94:
				hist = append(hist, "read")
				check("read")
				lastRead = total
			default:
				lastRead = total
				detail := gen.Uniform(rt, 1, 3, "detail")
				hist = append(hist, fmt.Sprintf("writeLogs(%d)", detail))
				var buf bytes.Buffer
				ml.WriteLogs(&buf, detail)
				want := expect(total)
				lines := strings.Split(strings.TrimRight(buf.String(), "\n"), "\n")
				if buf.Len() == 0 {
					lines = nil
				}
				var got []string
				for _, l := range lines {
					// console encoder: time \t level \t message [\t fields]
					parts := strings.Split(l, "\t")
					if len(parts) >= 3 {
						got = append(got, parts[2])
					}
				}
				if d := diff(got, want); d != "" {
					failf("WriteLogs(%d) after %d writes: %s", detail, total, d)
				}
			}
		}
		check("final read")
		nt := (deriveMid && parentAndChildWrote) || total > logging.BufferSize
		cls := []string{}
		add := func(b bool, s string) {
			if b {
				cls = append(cls, s)
			}
		}
		add(total <= 20, "total-small")
		add(total >= 1000 && total <= 1060, "total-around-capacity")
		add(total > 2000, "total-far-above-capacity")
		add(deriveMid, "derive-mid-stream")
		add(fullTurns > 0, "read-exactly-k*capacity-writes-after-the-previous-read")
		add(len(cores) > 1, "derived-cores")
		add(len(blank) > 0, "entries-without-message")
		add(levelSwitches > 0, "level-switched-at-run-time")
		add(len(odd) > 0, "messages-with-percent-signs")
		add(lateWrites > 0, "level-raised-between-check-and-write")
		add(len(withReused) > 1, "caller-owned-field-list-passed-repeatedly")
		add(bigEntries > 0, "entries-of-4..70-KiB")
		add(parentAndChildWrote, "parent-and-derived-both-wrote")
		ev.Case(strings.Join(hist, ";"), nt, cls...)
		if nt && ev.WantSample() {
			h := hist
			if len(h) > 30 {
				h = h[:30]
			}
			ev.Sample(map[string]any{"accepted_writes": total, "cores": len(cores), "history_head": h})
		}
	})
}

func TestWitnesses(t *testing.T) {
	ev.Witness(t, "C20-derived-core-has-own-cursor", func() string {
		ml := newLogger()
		root := ml.GetCore()
		w := func(c zapcore.Core, n int) {
			_ = c.Write(zapcore.Entry{Level: zapcore.InfoLevel, Message: strconv.Itoa(n)}, nil)
		}
		w(root, 1)
		d := root.With(nil)
		w(root, 2)
		w(root, 3)
		w(d, 4)
		got := messages(ml)
		if diff(got, []string{"4", "3", "2", "1"}) != "" {
			return fmt.Sprintf("write 1, derive, write 2 and 3 through the root, write 4 through the derived core: GetLogs = %v, want [4 3 2 1]", got)
		}
		return ""
	})
}

// Concurrent writers on root and derived cores with concurrent readers (race binary).
// yieldWriter lets other goroutines run between receiving a line and copying it.
type yieldWriter struct{ buf bytes.Buffer }

func (w *yieldWriter) Write(p []byte) (int, error) {
	runtime.Gosched()
	return w.buf.Write(p)
}

// checkPrint validates one WriteLogs output against what the writers can have written (per[w] entries "w/n").
func checkPrint(out string, per []int) string {
	if out == "" {
		return ""
	}
	seen := map[string]bool{}
	last := make([]int, len(per))
	for _, l := range strings.Split(strings.TrimRight(out, "\n"), "\n") {
		parts := strings.Split(l, "\t")
		if len(parts) < 3 {
			return fmt.Sprintf("malformed line %q", l)
		}
		m := parts[2]
		var w, n int
		if c, err := fmt.Sscanf(m, "%d/%d", &w, &n); err != nil || c != 2 || fmt.Sprintf("%d/%d", w, n) != m || w < 0 || w >= len(per) || n < 1 || n > per[w] {
			return fmt.Sprintf("line %q: message %q was never written", l, m)
		}
		if seen[m] {
			return fmt.Sprintf("entry %q printed twice", m)
		}
		seen[m] = true
		if last[w] != 0 && n != last[w]-1 {
			return fmt.Sprintf("writer %d: entry %d printed after %d (not newest first without gaps)", w, n, last[w])
		}
		last[w] = n
	}
	return ""
}

func TestRaceConcurrent(t *testing.T) {
	ev.Rapid(t, 60, 1500)
	rapid.Check(t, func(rt *rapid.T) {
		ml := newLogger()
		nw := gen.Uniform(rt, 2, 8, "nwriters")
		per := make([]int, nw)
		total := 0
		big := gen.Chance(rt, 40, "big")
		for i := range per {
			if big {
				per[i] = gen.Uniform(rt, 100, 600, "perbig")
			} else {
				per[i] = gen.Uniform(rt, 1, 60, "per")
			}
			total += per[i]
		}
		cs := make([]zapcore.Core, nw)
		for i := range cs {
			switch {
			case i == 0 || gen.Chance(rt, 30, "useroot"):
				cs[i] = ml.GetCore()
			default:
				cs[i] = cs[gen.Uniform(rt, 0, i-1, "parent")].With([]zapcore.Field{zap.Int("w", i)})
			}
		}
		nr := gen.Uniform(rt, 1, 3, "nreaders")
		var wg sync.WaitGroup
		start := make(chan struct{})
		stop := make(chan struct{})
		var mu sync.Mutex
		failure := ""
		for i := 0; i < nw; i++ {
			i := i
			wg.Add(1)
			go func() {
				defer wg.Done()
				<-start
				for n := 1; n <= per[i]; n++ {
					_ = cs[i].Write(zapcore.Entry{Level: zapcore.InfoLevel, Message: fmt.Sprintf("%d/%d", i, n)}, nil)
				}
			}()
		}
		var rwg sync.WaitGroup
		for r := 0; r < nr; r++ {
			rwg.Add(1)
			go func() {
				defer rwg.Done()
				<-start
				for {
					select {
					case <-stop:
						return
					default:
					}
					for _, e := range ml.GetLogs() {
						if e != nil && len(e.Message) == 0 {
							mu.Lock()
							failure = "a concurrent read returned an entry without message"
							mu.Unlock()
						}
					}
				}
			}()
		}
		// printers: WriteLogs into a writer that yields before it copies the bytes, concurrently with the writers,
		// the readers and each other; every printed line must be a written entry, no entry twice in one print, per
		// writer newest first without gaps
		np := gen.Pick(rt, []int{0, 1, 2, 2, 3}, "nprinters")
		prints := 0
		for r := 0; r < np; r++ {
			detail := gen.Uniform(rt, 1, 3, "pdetail")
			rwg.Add(1)
			go func() {
				defer rwg.Done()
				<-start
				for round := 0; ; round++ {
					select {
					case <-stop:
						if round > 0 {
							return
						}
					default:
					}
					w := &yieldWriter{}
					ml.WriteLogs(w, detail)
					if msg := checkPrint(w.buf.String(), per); msg != "" {
						mu.Lock()
						if failure == "" {
							failure = fmt.Sprintf("WriteLogs(%d) concurrent with writers and other printers: %s", detail, msg)
						}
						mu.Unlock()
						return
					}
					mu.Lock()
					prints++
					mu.Unlock()
				}
			}()
		}
		close(start)
		wg.Wait()
		close(stop)
		rwg.Wait()
		if failure != "" {
			rt.Fatalf("%s", failure)
		}
		ev.ExtraAdd("concurrent_prints_checked", int64(prints))
		got := messages(ml)
		want := total
		if want > logging.BufferSize {
			want = logging.BufferSize
		}
		desc := fmt.Sprintf("writers %v (total %d)", per, total)
		if len(got) != want {
			rt.Fatalf("%s: GetLogs has %d entries after the join, want %d", desc, len(got), want)
		}
		seen := map[string]bool{}
		last := make([]int, nw) // per writer: the previous (newer) sequence number met
		for i := range last {
			last[i] = -1
		}
		for _, m := range got {
			if seen[m] {
				rt.Fatalf("%s: entry %q retained twice", desc, m)
			}
			seen[m] = true
			var w, n int
			if _, err := fmt.Sscanf(m, "%d/%d", &w, &n); err != nil || w < 0 || w >= nw || n < 1 || n > per[w] {
				rt.Fatalf("%s: retained entry %q was never written", desc, m)
			}
			if last[w] == -1 {
				if n != per[w] {
					rt.Fatalf("%s: newest retained entry of writer %d is %d, it wrote %d", desc, w, n, per[w])
				}
			} else if n != last[w]-1 {
				rt.Fatalf("%s: writer %d: entry %d follows %d (not a newest-first suffix of its writes)", desc, w, n, last[w])
			}
			last[w] = n
		}
		if total <= logging.BufferSize {
			for w := range per {
				if per[w] > 0 && last[w] != 1 {
					rt.Fatalf("%s: writer %d's oldest retained entry is %d although nothing had to be evicted", desc, w, last[w])
				}
			}
		}
		derived := 0
		for i := range cs {
			if cs[i] != ml.GetCore() {
				derived++
			}
		}
		ev.Case(desc+fmt.Sprint(derived, nr), derived > 0 || total > logging.BufferSize, "concurrent", fmt.Sprintf("derived-writers:%d", min(derived, 3)))
		if ev.WantSample() {
			ev.Sample(map[string]any{"concurrent_writers": per, "derived_cores": derived, "readers": nr, "total": total})
		}
	})
}

// The package's own wiring: InitLogging builds the global loggers on top of in-memory buffers and the three HTTP
// handlers print them. Entries written through the global loggers and through loggers derived from them must come
// back from the handlers newest first, the most recent 1024 of each, at every detail level.
func TestHandlers(t *testing.T) {
	ev.Guard(t, "TestHandlers", func() {
		logging.InitLogging("development", t.TempDir())
		type stream struct {
			name    string
			lg      *zap.Logger
			handler func(http.ResponseWriter, *http.Request)
			written []string
		}
		streams := []*stream{
			{name: "L", lg: logging.Logger, handler: logging.LogWriter},
			{name: "N", lg: logging.N2n, handler: logging.N2NLogWriter},
			{name: "M", lg: logging.MemUsage, handler: logging.MemLogWriter},
		}
		re := regexp.MustCompile(`hm-(\d+)-([LNM])-end`)
		seed := ev.SeedFor("TestHandlers")
		counts := []int{3, 1024 + int(seed%7), 40}
		for si, s := range streams {
			derived := s.lg.With(zap.String("who", "derived-"+s.name))
			check := func(when string) {
				for detail := 0; detail <= 3; detail++ {
					rec := httptest.NewRecorder()
					s.handler(rec, httptest.NewRequest("GET", fmt.Sprintf("/?detail=%d", detail), nil))
					var got []string
					for _, l := range strings.Split(rec.Body.String(), "\n") {
						if m := re.FindString(l); m != "" {
							got = append(got, m)
						}
					}
					want := []string{}
					for i := len(s.written) - 1; i >= 0 && len(want) < logging.BufferSize; i-- {
						want = append(want, s.written[i])
					}
					if d := diff(got, want); d != "" {
						t.Fatalf("handler of stream %s, detail %d, %s (%d entries written): %s", s.name, detail, when, len(s.written), d)
					}
				}
			}
			check("before any entry")
			for i := 0; i < counts[si]; i++ {
				msg := fmt.Sprintf("hm-%d-%s-end", i, s.name)
				l := s.lg
				if (uint64(i)+seed)%3 == 0 {
					l = derived
				}
				l.Info(msg, zap.Int("n", i))
				s.written = append(s.written, msg)
				if i == 1 || i == counts[si]/2 {
					check(fmt.Sprintf("after %d entries", i+1))
				}
			}
			check("at the end")
			ev.Case(fmt.Sprintf("handlers/%s/%d", s.name, counts[si]), counts[si] > logging.BufferSize, "http-handlers")
		}
		// logging is set up again (new buffers, new loggers): the handlers serve what is written from now on
		logging.InitLogging("development", t.TempDir())
		for _, s := range []struct {
			name    string
			lg      *zap.Logger
			handler func(http.ResponseWriter, *http.Request)
		}{{"L", logging.Logger, logging.LogWriter}, {"N", logging.N2n, logging.N2NLogWriter}, {"M", logging.MemUsage, logging.MemLogWriter}} {
			var want []string
			for i := 0; i < 5; i++ {
				msg := fmt.Sprintf("hm-%d-%s-end", 900000+i, s.name)
				s.lg.With(zap.Int("again", i)).Info(msg)
				want = append([]string{msg}, want...)
			}
			rec := httptest.NewRecorder()
			s.handler(rec, httptest.NewRequest("GET", "/?detail=1", nil))
			var got []string
			for _, l := range strings.Split(rec.Body.String(), "\n") {
				if m := re.FindString(l); m != "" {
					got = append(got, m)
				}
			}
			if d := diff(got, want); d != "" {
				t.Fatalf("handler of stream %s after logging was initialised a second time (5 entries written since): %s", s.name, d)
			}
			ev.Case("handlers-after-second-init/"+s.name, true, "http-handlers-after-reinitialisation")
		}
	})
}

// Long runs and indistinguishable-looking entries.
// (1) totals around 2^16 and 2^17 writes (64 and 128 laps of the ring): the most recent 1024 must come back.
// (2) bursts of entries that have the same message, the same timestamp and the same number of fields and differ only in
// a field value (a hot loop logging "item processed" with a coarse clock): every one of them is an entry of its own.
func TestLongRunsAndLookalikes(t *testing.T) {
	ev.Guard(t, "TestLongRunsAndLookalikes", func() {
		seed := ev.SeedFor("TestLongRunsAndLookalikes")
		totals := []int{65535, 65536, 65537, 65536 + 46, 65536 + 1023, 65536 + 1024, 131072, 131072 + int(seed%1000)}
		if !ev.Thorough() {
			totals = []int{65536, 65536 + 1 + int(seed%1022), 131072 + int(seed%1000)}
		}
		for _, total := range totals {
			ml := newLogger()
			root := ml.GetCore()
			derived := root.With([]zapcore.Field{zap.String("who", "derived")})
			for i := 1; i <= total; i++ {
				c := root
				if i%5 == 0 {
					c = derived
				}
				if err := c.Write(zapcore.Entry{Level: zapcore.InfoLevel, Message: strconv.Itoa(i)}, nil); err != nil {
					t.Fatalf("Write: %v", err)
				}
				if i == total-1500 {
					_ = ml.GetLogs() // a read somewhere before the end
				}
			}
			if d := diff(messages(ml), expect(total)); d != "" {
				t.Fatalf("after %d writes to one buffer: %s", total, d)
			}
			ev.Case(fmt.Sprintf("long-run/%d", total), true, "long-run-64+-laps")
		}
		// entries with many call-site fields keep all of them
		{
			ml := newLogger()
			lg := zap.New(ml.GetCore())
			counts := []int{0, 1, 5, 15, 16, 17, 31, 32, 33, 64, 100}
			for _, nf := range counts {
				fs := make([]zap.Field, nf)
				for i := range fs {
					fs[i] = zap.Int(fmt.Sprintf("f%d", i), 1000*nf+i)
				}
				lg.Info(fmt.Sprintf("with %d fields", nf), fs...)
			}
			logs := ml.GetLogs()
			if len(logs) != len(counts) {
				t.Fatalf("%d entries written with 0..100 fields, GetLogs has %d", len(counts), len(logs))
			}
			for i, e := range logs {
				nf := counts[len(counts)-1-i]
				if e == nil || len(e.Context) != nf {
					t.Fatalf("the entry written with %d fields is retained with %d", nf, len(e.Context))
				}
				for j, f := range e.Context {
					if f.Key != fmt.Sprintf("f%d", j) || f.Integer != int64(1000*nf+j) {
						t.Fatalf("the entry written with %d fields: field %d is %s=%d", nf, j, f.Key, f.Integer)
					}
				}
			}
			ev.Case("many-fields", true, "entries-with-many-fields")
		}
		stamp := time.Unix(1700000000, 0)
		for _, n := range []int{2, 7, 200, 1024, 1500} {
			ml := newLogger()
			root := ml.GetCore()
			derived := root.With([]zapcore.Field{zap.String("who", "derived")})
			if err := root.Write(zapcore.Entry{Level: zapcore.InfoLevel, Message: "first", Time: stamp}, nil); err != nil {
				t.Fatalf("Write: %v", err)
			}
			for i := 1; i <= n; i++ {
				c := root
				if (uint64(i)+seed)%4 == 0 {
					c = derived
				}
				if err := c.Write(zapcore.Entry{Level: zapcore.InfoLevel, Message: "item processed", Time: stamp}, []zapcore.Field{zap.Int("i", i)}); err != nil {
					t.Fatalf("Write: %v", err)
				}
			}
			var got []string
			for _, e := range ml.GetLogs() {
				switch {
				case e == nil:
					got = append(got, "<nil>")
				case e.Message == "first":
					got = append(got, "first")
				default:
					v := "?"
					for _, f := range e.Context {
						if f.Key == "i" {
							v = strconv.FormatInt(f.Integer, 10)
						}
					}
					got = append(got, v)
				}
			}
			var want []string
			for i := n; i >= 1 && len(want) < logging.BufferSize; i-- {
				want = append(want, strconv.Itoa(i))
			}
			if len(want) < logging.BufferSize {
				want = append(want, "first")
			}
			if d := diff(got, want); d != "" {
				t.Fatalf("%d entries with equal message, time and field count (field value = sequence number): %s", n, d)
			}
			ev.Case(fmt.Sprintf("lookalikes/%d", n), true, "lookalike-entries")
		}
	})
}
