package c13

import (
	"fmt"
	"testing"

	"github.com/0chain/common/core/util/wmpt"

	"verif/harness/internal/ev"
	"verif/harness/internal/memkv"
	"verif/harness/internal/refwmpt"
	"verif/harness/internal/wmkit"
)

func key(b0 byte) []byte {
	k := make([]byte, 32)
	k[0] = b0
	return k
}

// scenario commits a checkpoint of two keys, runs change, commits, rolls back through entry, runs two
// collection passes and reports whether the checkpoint still resolves.
func scenario(change func(m *wmkit.Machine), entry string) string {
	db := memkv.New()
	var failure string
	var m *wmkit.Machine
	m = wmkit.New(db, func(f string, a ...any) {
		if failure == "" {
			failure = fmt.Sprintf(f, a...)
		}
		panic("stop")
	})
	func() {
		defer func() { recover() }()
		m.Update(key(0), []byte{0, 1, 1, 0})
		m.Update(key(0x10), []byte{0, 2, 2, 0})
		m.Commit(0)
		m.GC()
		root, weight := append([]byte(nil), m.T.Root()...), m.T.Weight()
		model := map[string]refwmpt.Entry{}
		for k, v := range m.Model {
			model[k] = v
		}
		m.Logf("SaveRoot")
		m.T.SaveRoot()
		change(m)
		m.Commit(0)
		m.Logf("%s", entry)
		if entry == "Rollback" {
			m.T.Rollback()
		} else {
			m.T.RollbackTrie(wmpt.NewHashNode(root, weight))
		}
		m.GC()
		m.GC()
		if w := refwmpt.WalkFrom(root, db.Getter()); len(w.Missing) > 0 {
			m.Fail("the checkpoint root no longer resolves from storage: missing %v", w.Missing)
		}
		wmkit.ObserveTrie(wmkit.Reopened(db, root, weight), model, nil, m.Fail, "trie reopened at the checkpoint")
	}()
	if failure != "" {
		return m.History() + ": " + failure
	}
	return ""
}

func TestWitnesses(t *testing.T) {
	ev.Witness(t, "C13-rollback-deletes-resaved-checkpoint-node", func() string {
		return scenario(func(m *wmkit.Machine) {
			m.Logf("(rewrite same value)")
			m.Update(key(0x10), []byte{0, 2, 2, 0})
		}, "Rollback")
	})
	ev.Witness(t, "C13-rollbacktrie-keeps-staged-deletions", func() string {
		return scenario(func(m *wmkit.Machine) {
			m.Update(key(0x20), []byte{0, 3, 3, 0})
			m.Delete(key(0))
		}, "RollbackTrie")
	})
}

func TestWitnessStaleCreated(t *testing.T) {
	ev.Witness(t, "C13-early-exit-commit-keeps-created-list", func() string {
		db := memkv.New()
		var failure string
		var m *wmkit.Machine
		m = wmkit.New(db, func(f string, a ...any) {
			if failure == "" {
				failure = fmt.Sprintf(f, a...)
			}
			panic("stop")
		})
		func() {
			defer func() { recover() }()
			m.Update(key(0), []byte{0, 1, 1, 0})
			m.Commit(0)
			root, weight := append([]byte(nil), m.T.Root()...), m.T.Weight()
			m.Delete(key(0)) // everything deleted: the next commit has nothing to save
			m.Commit(0)
			m.Logf("RollbackTrie (no SaveRoot)")
			m.T.RollbackTrie(wmpt.NewHashNode(root, weight))
			if w := refwmpt.WalkFrom(root, db.Getter()); len(w.Missing) > 0 {
				m.Fail("the checkpoint root no longer resolves from storage: missing %v", w.Missing)
			}
		}()
		if failure != "" {
			return m.History() + ": " + failure
		}
		return ""
	})
}
