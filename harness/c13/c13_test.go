// C13 — rolling back a weighted-trie commit restores the checkpoint exactly.
package c13

import (
	"bytes"
	"crypto/sha256"
	"fmt"
	"strings"
	"testing"

	"github.com/0chain/common/core/util/wmpt"
	"pgregory.net/rapid"

	"verif/harness/internal/ev"
	"verif/harness/internal/gen"
	"verif/harness/internal/memkv"
	"verif/harness/internal/refwmpt"
	"verif/harness/internal/wmkit"
)

func TestMain(m *testing.M) {
	ev.SetMeta(ev.Meta{
		Property: "C13", Level: "exploration",
		Rule: "rapid draws a prefix history (updates, deletes, commits at drawn collapse levels with disciplined garbage collection) ending in a clean committed checkpoint (possibly empty), SaveRoot(), then a batch of changes drawn from {new keys, changed values, same-value rewrites, delete-and-re-add of identical content, deletes, nothing}, commit at a drawn level + batch write, 0 or 1 garbage-collection pass, rollback through Rollback() or RollbackTrie(checkpoint given as NewHashNode(root, weight), as CopyRoot(level) taken at the checkpoint, or nil for the empty trie), then 0..2 further collection passes and optionally new updates and a commit. " +
			"Oracle: after the rollback Root()/Weight() equal the checkpoint's; a trie reopened from the checkpoint root and the rolled-back trie itself pass the full observation (reference root, owner and verifying proof for the first/last block of every key) against the checkpoint model, immediately and after each later collection pass, and the raw-record walk from the checkpoint root finds every node; with New = storage keys after the rolled-back commit's batch minus storage keys just before it (computed from the harness's own snapshots), no key of New is left in storage after the rollback. " +
			"The checkpoint given to RollbackTrie may be a CopyRoot(level) copy; the rolled-back trie itself is observed too; updates may go back to an earlier value. A large case rolls back a batch that re-adds or changes 180..700 checkpoint keys and adds 300..800 new ones. Non-trivial = the rolled-back commit re-created at least one node hash that the checkpoint state already contained and created at least one genuinely new node; distinct = distinct step log.",
		Assumptions: []string{"storage is internal/memkv", "at most one collection pass runs between the commit and its rollback (two passes legitimately delete the checkpoint's replaced nodes)", "equal values across keys are excluded while the C11 shared-node finding is listed, except in TestRollbackWithSharedRecords, which never runs the collector"},
	})
	ev.Main(m)
}

func keysOf(db *memkv.Store) map[string]bool {
	out := map[string]bool{}
	for _, k := range db.Keys() {
		out[k] = true
	}
	return out
}

func run(rt *rapid.T) {
	db := memkv.New()
	var m *wmkit.Machine
	m = wmkit.New(db, func(f string, a ...any) {
		rt.Fatalf("%s\nhistory: %s", fmt.Sprintf(f, a...), m.History())
	})
	pool := wmkit.GenKeyPool(rt, gen.Uniform(rt, 2, 10, "npool"))
	unique := wmkit.UniqueValues(rt)
	counter := 0
	earlierCycle := false
	// prefix history
	for i := gen.Uniform(rt, 0, 14, "prefix"); i > 0; i-- {
		k := gen.Pct(rt, "pop")
		switch {
		case k < 55:
			ki := gen.Uniform(rt, 0, len(pool)-1, "ki")
			m.Update(pool[ki], wmkit.GenValue(rt, ki, &counter, unique))
		case k < 72:
			if es := wmkit.Entries(m.Model); len(es) > 0 {
				m.Delete(gen.Pick(rt, es, "pdel").Key)
			}
		case k < 90:
			m.Commit(gen.Pick(rt, []int{0, 1, 2, 3, 64}, "plevel"))
			if gen.Chance(rt, 60, "pgc") {
				m.GC()
			}
		case k < 96:
			// an earlier checkpoint / change / commit / rollback cycle in the same object's life
			if !m.Dirty {
				keep := map[string]refwmpt.Entry{}
				for kk, v := range m.Model {
					keep[kk] = v
				}
				m.Logf("SaveRoot (earlier cycle)")
				m.T.SaveRoot()
				ki := gen.Uniform(rt, 0, len(pool)-1, "cycleki")
				m.Update(pool[ki], wmkit.GenValue(rt, ki, &counter, unique))
				m.Commit(gen.Pick(rt, []int{0, 1, 2, 64}, "cyclelevel"))
				m.Logf("Rollback (earlier cycle)")
				m.T.Rollback()
				m.Model = keep
				m.Dirty = false
				earlierCycle = true
			}
		default:
			if !m.Dirty {
				m.Reload()
			}
		}
	}
	if m.Dirty || gen.Chance(rt, 50, "cpcommit") {
		m.Commit(gen.Pick(rt, []int{0, 1, 2, 64}, "cplevel"))
	}
	// directed: now and then everything that is live is removed again and committed, so that the checkpoint is the
	// empty trie and the batch can bring back exactly what was there before
	emptied := false
	if len(m.Model) > 0 && len(m.Model) <= 3 && gen.Chance(rt, 25, "emptyagain") {
		for _, e := range wmkit.Entries(m.Model) {
			m.Delete(e.Key)
		}
		m.Commit(gen.Pick(rt, []int{0, 1, 64}, "emptylevel"))
		emptied = true
	}
	for j := gen.Uniform(rt, 0, 2, "cpgc"); j > 0; j-- {
		m.GC()
	}
	// checkpoint
	cpRoot := append([]byte(nil), m.T.Root()...)
	cpWeight := m.T.Weight()
	cpModel := map[string]refwmpt.Entry{}
	for k, v := range m.Model {
		cpModel[k] = v
	}
	// Rollback() needs SaveRoot(); RollbackTrie(node) is also used by callers that keep the checkpoint as a node
	// themselves and never call SaveRoot (the package's own TestRollbackTrie does)
	entry := gen.Pick(rt, []string{"Rollback", "RollbackTrie", "RollbackTrie-without-SaveRoot"}, "entry")
	if entry != "RollbackTrie-without-SaveRoot" {
		m.Logf("SaveRoot")
		m.T.SaveRoot()
	}
	cpNodes := keysOf(db)
	// the checkpoint handed to RollbackTrie is a hash reference or a copy of the root that keeps the top levels in memory
	var cpCopy wmpt.Node
	copyLevel := -1
	if entry != "Rollback" && cpWeight > 0 && gen.Chance(rt, 50, "cpcopy") {
		copyLevel = gen.Pick(rt, []int{0, 1, 2, 3, 64, 100}, "cpcopylevel")
		cpCopy = m.T.CopyRoot(copyLevel)
		m.Logf("checkpoint = CopyRoot(%d)", copyLevel)
	}
	// the batch of changes
	usedPair := false
	var kinds []string
	if emptied && gen.Chance(rt, 70, "bringback") {
		for m.Resurrect(rt, "bringbackwhich") {
			kinds = append(kinds, "new-or-changed")
		}
	}
	for i := gen.Uniform(rt, 0, 6, "nchanges"); i > 0; i-- {
		es := wmkit.Entries(m.Model)
		switch gen.Pick(rt, []string{"new-key", "change-value", "earlier-value", "same-value", "del-readd", "delete", "hash-prefix-pair", "resurrect", "resurrect"}, "ckind") {
		case "resurrect":
			if m.Resurrect(rt, "cres") {
				kinds = append(kinds, "new-or-changed")
			}
		case "hash-prefix-pair":
			// two new entries whose value records hash to the same first four bytes
			if a, b := wmkit.CollidingValues(); a != nil && unique && !usedPair && len(pool) >= 2 {
				usedPair = true
				i := gen.Uniform(rt, 0, len(pool)-2, "pairki")
				m.Logf("(values with a common 4-byte hash prefix)")
				m.Update(pool[i], append([]byte(nil), a...))
				m.Update(pool[i+1], append([]byte(nil), b...))
				kinds = append(kinds, "new-or-changed")
			}
		case "earlier-value":
			if m.Revert(rt, "crevert") {
				kinds = append(kinds, "new-or-changed")
			}
		case "new-key":
			ki := gen.Uniform(rt, 0, len(pool)-1, "cki")
			m.Update(pool[ki], wmkit.GenValue(rt, ki, &counter, unique))
			kinds = append(kinds, "new-or-changed")
		case "change-value":
			if len(es) > 0 {
				e := gen.Pick(rt, es, "cv")
				m.Update(e.Key, wmkit.GenValue(rt, 50, &counter, unique))
				kinds = append(kinds, "new-or-changed")
			}
		case "same-value":
			if len(es) > 0 {
				e := gen.Pick(rt, es, "sv")
				m.Logf("(rewrite same value)")
				m.Rewrite(e)
				kinds = append(kinds, "same-value-rewrite")
			}
		case "del-readd":
			if len(es) > 0 {
				e := gen.Pick(rt, es, "dr")
				m.Logf("(delete and re-add identical)")
				m.Delete(e.Key)
				m.Rewrite(e)
				kinds = append(kinds, "delete-and-re-add")
			}
		default:
			if len(es) > 0 {
				m.Delete(gen.Pick(rt, es, "cd").Key)
				kinds = append(kinds, "delete")
			}
		}
	}
	before := keysOf(db)
	m.Commit(gen.Pick(rt, []int{0, 0, 1, 2, 3, 64}, "clevel"))
	after := keysOf(db)
	var created []string
	for k := range after {
		if !before[k] {
			created = append(created, k)
		}
	}
	gcBetween := gen.Chance(rt, 50, "gcbetween")
	if gcBetween {
		m.GC()
	}
	// rollback
	m.Logf("%s", entry)
	if entry == "Rollback" {
		m.T.Rollback()
	} else {
		switch {
		case cpWeight == 0:
			m.T.RollbackTrie(nil)
		case cpCopy != nil:
			m.T.RollbackTrie(cpCopy)
		default:
			m.T.RollbackTrie(wmpt.NewHashNode(append([]byte(nil), cpRoot...), cpWeight))
		}
	}
	m.Model = cpModel
	m.Dirty = false
	check := func(when string) {
		if got := m.T.Root(); !bytes.Equal(got, cpRoot) {
			m.Fail("%s: Root() = %x, checkpoint root %x", when, got, cpRoot)
		}
		if got := m.T.Weight(); got != cpWeight {
			m.Fail("%s: Weight() = %d, checkpoint weight %d", when, got, cpWeight)
		}
		w := refwmpt.WalkFrom(cpRoot, db.Getter())
		if len(w.Missing) > 0 || len(w.Problems) > 0 {
			m.Fail("%s: checkpoint root does not resolve from storage: missing %v problems %v", when, w.Missing, w.Problems)
		}
		wmkit.ObserveTrie(wmkit.Reopened(db, cpRoot, cpWeight), cpModel, nil, m.Fail, when+": trie reopened at the checkpoint")
		// the rolled-back trie itself (it has no uncommitted changes now) presents the checkpoint content as well
		wmkit.ObserveTrie(m.T, cpModel, nil, m.Fail, when+": the rolled-back trie itself")
	}
	check("after " + entry)
	for _, k := range created {
		if db.Has([]byte(k)) {
			m.Fail("after %s: node %x was created only by the rolled-back commit and is still in storage", entry, k)
		}
	}
	recreated := 0
	for k := range after {
		_ = k
	}
	// nodes the rolled-back commit saved again although the checkpoint already had them cannot be seen in a key diff;
	// count them through the model: same-value rewrites and delete-and-re-add re-save existing nodes
	for _, k := range kinds {
		if k == "same-value-rewrite" || k == "delete-and-re-add" {
			recreated++
		}
	}
	for j := gen.Uniform(rt, 0, 2, "gcafter"); j > 0; j-- {
		m.GC()
		check("after rollback and a further collection pass")
	}
	if gen.Chance(rt, 40, "continue") {
		ki := gen.Uniform(rt, 0, len(pool)-1, "nki")
		m.Update(pool[ki], wmkit.GenValue(rt, ki, &counter, unique))
		m.Commit(gen.Pick(rt, []int{0, 1, 64}, "nlevel"))
		m.Observe(nil)
		m.GC()
		m.GC()
		wmkit.ObserveTrie(wmkit.Reopened(db, m.T.Root(), m.T.Weight()), m.Model, nil, m.Fail, "after continuing past the rollback")
	}
	nt := recreated > 0 && len(created) > 0
	cls := []string{"entry:" + entry}
	add := func(b bool, s string) {
		if b {
			cls = append(cls, s)
		}
	}
	add(gcBetween, "gc-between-commit-and-rollback")
	add(recreated > 0, "re-created-checkpoint-node")
	add(cpWeight == 0, "empty-checkpoint")
	add(earlierCycle, "earlier-rollback-cycle-on-the-same-object")
	add(emptied, "checkpoint-emptied-by-removals")
	add(cpCopy != nil, "checkpoint-is-a-root-copy")
	add(len(kinds) == 0, "empty-batch")
	add(len(created) > 0, "created-new-nodes")
	_ = cpNodes
	ev.Case(m.History(), nt, cls...)
	if nt && ev.WantSample() {
		ev.Sample(map[string]any{"history": m.Log, "changes": kinds, "nodes_created_by_rolled_back_commit": len(created)})
	}
}

func TestRollback(t *testing.T) {
	ev.Rapid(t, 4000, 20000)
	rapid.Check(t, run)
}

// Large batches: a checkpoint of a few hundred keys and one rolled-back commit that saves more than a thousand nodes
// (every checkpoint key deleted and re-added unchanged, or every value changed, plus several hundred new keys).
func TestLargeRollback(t *testing.T) {
	ev.Rapid(t, 10, 40)
	rapid.Check(t, func(rt *rapid.T) {
		db := memkv.New()
		var m *wmkit.Machine
		m = wmkit.New(db, func(f string, a ...any) {
			h := m.Log
			if len(h) > 12 {
				h = append(append([]string{}, h[:6]...), append([]string{"..."}, h[len(h)-6:]...)...)
			}
			rt.Fatalf("%s\nhistory (%d steps): %s", fmt.Sprintf(f, a...), len(m.Log), strings.Join(h, "; "))
		})
		ncp := gen.Uniform(rt, 180, 450, "ncheckpoint")
		if gen.Chance(rt, 60, "bigcheckpoint") {
			ncp = gen.Uniform(rt, 450, 700, "ncheckpointbig") // replacing all of these stages more than 1024 nodes
		}
		nnew := gen.Uniform(rt, 300, 800, "nnew")
		key := func(i int) []byte { h := sha256.Sum256([]byte(fmt.Sprintf("large-rollback/%d", i))); return h[:] }
		counter := 0
		for i := 0; i < ncp; i++ {
			m.Update(key(i), wmkit.GenValue(rt, i, &counter, true))
		}
		m.Commit(gen.Pick(rt, []int{0, 1, 2, 64}, "cplevel"))
		if gen.Chance(rt, 60, "cpgc") {
			m.GC()
		}
		cpRoot := append([]byte(nil), m.T.Root()...)
		cpWeight := m.T.Weight()
		cpModel := map[string]refwmpt.Entry{}
		for k, v := range m.Model {
			cpModel[k] = v
		}
		entry := gen.Pick(rt, []string{"Rollback", "RollbackTrie"}, "entry")
		m.Logf("SaveRoot")
		m.T.SaveRoot()
		batch := gen.Pick(rt, []string{"re-add-identical", "change-all", "mixed"}, "batch")
		for i := 0; i < ncp; i++ {
			e := m.Model[string(key(i))]
			switch {
			case batch == "re-add-identical" || (batch == "mixed" && i%2 == 0):
				m.Delete(e.Key)
				m.Rewrite(e)
			default:
				m.Update(e.Key, wmkit.GenValue(rt, i, &counter, true))
			}
		}
		for i := 0; i < nnew; i++ {
			m.Update(key(ncp+i), wmkit.GenValue(rt, i, &counter, true))
		}
		before := keysOf(db)
		m.Commit(gen.Pick(rt, []int{0, 1, 2, 64}, "clevel"))
		after := keysOf(db)
		gcBetween := gen.Chance(rt, 50, "gcbetween")
		if gcBetween {
			m.GC()
		}
		m.Logf("%s", entry)
		if entry == "Rollback" {
			m.T.Rollback()
		} else {
			m.T.RollbackTrie(wmpt.NewHashNode(append([]byte(nil), cpRoot...), cpWeight))
		}
		m.Model = cpModel
		m.Dirty = false
		if got := m.T.Root(); !bytes.Equal(got, cpRoot) || m.T.Weight() != cpWeight {
			m.Fail("after %s: Root() = %x weight %d, checkpoint %x weight %d", entry, got, m.T.Weight(), cpRoot, cpWeight)
		}
		check := func(when string) {
			w := refwmpt.WalkFrom(cpRoot, db.Getter())
			if len(w.Missing) > 0 || len(w.Problems) > 0 {
				m.Fail("%s: checkpoint root does not resolve from storage: %d nodes missing (first %v), problems %v", when, len(w.Missing), first(w.Missing), w.Problems)
			}
			wmkit.ObserveTrie(wmkit.Reopened(db, cpRoot, cpWeight), cpModel, nil, m.Fail, when+": trie reopened at the checkpoint")
		}
		check("after " + entry)
		left := 0
		for k := range after {
			if !before[k] && db.Has([]byte(k)) {
				left++
			}
		}
		if left > 0 {
			m.Fail("after %s: %d nodes created only by the rolled-back commit are still in storage", entry, left)
		}
		m.GC()
		check("after rollback and a further collection pass")
		ev.Case(fmt.Sprintf("large/%d/%d/%s/%s/%v", ncp, nnew, batch, entry, gcBetween), len(after)-len(before) > 1024 || ncp+nnew > 700, "large-batch", "batch:"+batch, "entry:"+entry)
	})
}

func first(xs []string) []string {
	if len(xs) > 2 {
		return xs[:2]
	}
	return xs
}

// A dense sweep over the size of the rolled-back commit: 1..140 new keys on a small checkpoint, so that the number of
// nodes the commit creates takes nearly every value from a handful to about 350 (multiples of 100, of 128, of 255...).
func TestRollbackSizeSweep(t *testing.T) {
	ev.Guard(t, "TestRollbackSizeSweep", func() {
		seed := ev.SeedFor("TestRollbackSizeSweep")
		seen := map[int]bool{}
		for nnew := 1; nnew <= 140; nnew++ {
			for _, entry := range []string{"Rollback", "RollbackTrie"} {
				db := memkv.New()
				var m *wmkit.Machine
				m = wmkit.New(db, func(f string, a ...any) {
					t.Fatalf("%d new keys, %s: %s", nnew, entry, fmt.Sprintf(f, a...))
				})
				key := func(i int) []byte {
					h := sha256.Sum256([]byte(fmt.Sprintf("sweep/%d/%d", seed, i)))
					return h[:]
				}
				for i := 0; i < 8; i++ {
					m.Update(key(i), []byte{byte(i), 1, byte(i), 0x11})
				}
				level := []int{0, 1, 2, 64}[(nnew+int(seed%4))%4]
				m.Commit(level)
				cpRoot, cpWeight := append([]byte(nil), m.T.Root()...), m.T.Weight()
				cpModel := map[string]refwmpt.Entry{}
				for k, v := range m.Model {
					cpModel[k] = v
				}
				m.T.SaveRoot()
				for i := 0; i < nnew; i++ {
					m.Update(key(100+i), []byte{byte(i), 2, byte(i >> 8), byte(nnew)})
				}
				before := keysOf(db)
				m.Commit(level)
				created := 0
				after := keysOf(db)
				for k := range after {
					if !before[k] {
						created++
					}
				}
				seen[created] = true
				if entry == "Rollback" {
					m.T.Rollback()
				} else {
					m.T.RollbackTrie(wmpt.NewHashNode(append([]byte(nil), cpRoot...), cpWeight))
				}
				if !bytes.Equal(m.T.Root(), cpRoot) || m.T.Weight() != cpWeight {
					t.Fatalf("%d new keys (%d created nodes), %s: root/weight after the rollback differ from the checkpoint", nnew, created, entry)
				}
				left := 0
				for k := range after {
					if !before[k] && db.Has([]byte(k)) {
						left++
					}
				}
				if left > 0 {
					t.Fatalf("%d new keys, %s: the rolled-back commit created %d nodes, %d of them are still in storage", nnew, entry, created, left)
				}
				wmkit.ObserveTrie(wmkit.Reopened(db, cpRoot, cpWeight), cpModel, nil, m.Fail, "trie reopened at the checkpoint")
			}
		}
		hundreds := 0
		for c := range seen {
			if c%100 == 0 {
				hundreds++
			}
		}
		ev.Case(fmt.Sprintf("sweep/%d sizes", len(seen)), true, "rollback-size-sweep", fmt.Sprintf("created-counts-that-are-multiples-of-100:%d", hundreds))
	})
}

// A small world: two or three keys with three possible values each, so that whole states come back again and again, in
// one object's life with many commits, collection passes and checkpoint / commit / rollback cycles. Every cycle is judged
// like the single one of TestRollback.
func TestRevisitedStates(t *testing.T) {
	ev.Rapid(t, 1200, 6000)
	rapid.Check(t, func(rt *rapid.T) {
		db := memkv.New()
		var m *wmkit.Machine
		m = wmkit.New(db, func(f string, a ...any) {
			rt.Fatalf("%s\nhistory: %s", fmt.Sprintf(f, a...), m.History())
		})
		pool := wmkit.GenKeyPool(rt, gen.Uniform(rt, 2, 3, "npool"))
		change := func(label string) {
			ki := gen.Uniform(rt, 0, len(pool)-1, label+"ki")
			if gen.Chance(rt, 12, label+"del") {
				if m.Model[string(pool[ki])].Key != nil {
					m.Delete(pool[ki])
				}
				return
			}
			m.Update(pool[ki], []byte{byte(1 + gen.Uniform(rt, 0, 2, label+"v")), byte(ki)})
		}
		seen := map[string]int{}
		state := func() string {
			s := ""
			for _, e := range wmkit.Entries(m.Model) {
				s += fmt.Sprintf("%x=%x;", e.Key, e.Value)
			}
			return s
		}
		cycles, revisits, cyclesAfterCycle, noops := 0, 0, 0, 0
		for i := gen.Uniform(rt, 8, 30, "steps"); i > 0; i-- {
			if gen.Chance(rt, 65, "plain") {
				change("p")
				if gen.Chance(rt, 25, "second") {
					change("q")
				}
				m.Commit(gen.Pick(rt, []int{0, 1, 2, 64}, "level"))
				for j := gen.Pick(rt, []int{0, 1, 1, 2}, "gc"); j > 0; j-- {
					m.GC()
				}
				if seen[state()]++; seen[state()] > 1 {
					revisits++
				}
				continue
			}
			// a cycle
			cpRoot := append([]byte(nil), m.T.Root()...)
			cpWeight := m.T.Weight()
			cpModel := map[string]refwmpt.Entry{}
			for k, v := range m.Model {
				cpModel[k] = v
			}
			entry := gen.Pick(rt, []string{"Rollback", "RollbackTrie", "RollbackTrie(copy)"}, "entry")
			var cpCopy wmpt.Node
			if strings.HasPrefix(entry, "RollbackTrie(copy)") {
				// the caller keeps the checkpoint as a copy of the root (taken here, possibly right after an earlier rollback)
				lvl := gen.Pick(rt, []int{0, 1, 64}, "copylevel")
				cpCopy = m.T.CopyRoot(lvl)
				m.Logf("checkpoint = CopyRoot(%d)", lvl)
			} else {
				m.Logf("SaveRoot")
				m.T.SaveRoot()
			}
			for j := gen.Uniform(rt, 1, 3, "nchanges"); j > 0; j-- {
				change("c")
			}
			before := keysOf(db)
			m.Commit(gen.Pick(rt, []int{0, 1, 2, 64}, "clevel"))
			if seen[state()] > 0 {
				revisits++
			}
			var created []string
			for k := range keysOf(db) {
				if !before[k] {
					created = append(created, k)
				}
			}
			if gen.Chance(rt, 40, "gcbetween") {
				m.GC()
			}
			lateSave := cpCopy != nil && gen.Chance(rt, 40, "latesave")
			if lateSave {
				// the caller marks the new state as its next checkpoint and then decides to go back to the older copy after
				// all: root and weight come back (the new checkpoint call makes the library forget which nodes the commit
				// created, so their removal is not expected here)
				m.Logf("SaveRoot (after the commit)")
				m.T.SaveRoot()
			}
			if cpCopy == nil && m.T.Weight() > 0 && gen.Chance(rt, 25, "noop") {
				// a rollback to the root the trie is at: nothing to do, and the real rollback that follows is not affected
				m.Logf("RollbackTrie(current root)")
				m.T.RollbackTrie(wmpt.NewHashNode(append([]byte(nil), m.T.Root()...), m.T.Weight()))
				noops++
			}
			m.Logf("%s", entry)
			switch {
			case entry == "Rollback":
				m.T.Rollback()
			case cpCopy != nil:
				m.T.RollbackTrie(cpCopy)
			case cpWeight == 0:
				m.T.RollbackTrie(nil)
			default:
				m.T.RollbackTrie(wmpt.NewHashNode(append([]byte(nil), cpRoot...), cpWeight))
			}
			m.Model = cpModel
			m.Dirty = false
			when := fmt.Sprintf("cycle %d, after %s", cycles+1, entry)
			if got := m.T.Root(); !bytes.Equal(got, cpRoot) {
				m.Fail("%s: Root() = %x, checkpoint root %x", when, got, cpRoot)
			}
			if got := m.T.Weight(); got != cpWeight {
				m.Fail("%s: Weight() = %d, checkpoint weight %d", when, got, cpWeight)
			}
			for _, k := range created {
				if lateSave {
					break
				}
				if db.Has([]byte(k)) {
					m.Fail("%s: node %x was created only by the rolled-back commit and is still in storage", when, k)
				}
			}
			wmkit.ObserveTrie(wmkit.Reopened(db, cpRoot, cpWeight), cpModel, nil, m.Fail, when+": trie reopened at the checkpoint")
			wmkit.ObserveTrie(m.T, cpModel, nil, m.Fail, when+": the rolled-back trie itself")
			if cycles > 0 {
				cyclesAfterCycle++
			}
			cycles++
		}
		m.Commit(0)
		m.GC()
		m.GC()
		wmkit.ObserveTrie(wmkit.Reopened(db, m.T.Root(), m.T.Weight()), m.Model, nil, m.Fail, "end of the small world")
		cls := []string{"small-world"}
		if cycles >= 2 {
			cls = append(cls, "several-rollback-cycles-in-one-life")
		}
		if revisits > 0 {
			cls = append(cls, "whole-state-revisited")
		}
		if noops > 0 {
			cls = append(cls, "rollback-to-the-current-root-before-the-real-one")
		}
		ev.Case(m.History(), cycles >= 2 && revisits > 0, cls...)
	})
}

// TestRollbackWithSharedRecords: several keys carry the same (value, weight) - equal values share one stored value
// record, because a record's hash does not cover the key. The generators of the other tests never draw equal values
// while the collector's known finding about shared records is open; this history never runs the collector, so nothing
// of that finding is in play and the rollback contract applies in full: the rolled-back commit may set a key to exactly
// the record another, untouched key holds in the checkpoint, and the rollback must not take that record away.
func TestRollbackWithSharedRecords(t *testing.T) {
	ev.Rapid(t, 1500, 8000)
	rapid.Check(t, func(rt *rapid.T) {
		db := memkv.New()
		var m *wmkit.Machine
		m = wmkit.New(db, func(f string, a ...any) {
			rt.Fatalf("%s\nhistory: %s", fmt.Sprintf(f, a...), m.History())
		})
		pool := wmkit.GenKeyPool(rt, gen.Uniform(rt, 2, 6, "npool"))
		vals := [][]byte{{0x00}, {0x01, 0x07}, {0x02}}
		val := func(label string) []byte { return append([]byte(nil), gen.Pick(rt, vals, label)...) }
		for i := gen.Uniform(rt, 2, 8, "prefix"); i > 0; i-- {
			switch k := gen.Pct(rt, "pop"); {
			case k < 65:
				m.Update(gen.Pick(rt, pool, "pk"), val("pv"))
			case k < 80:
				if es := wmkit.Entries(m.Model); len(es) > 0 {
					m.Delete(gen.Pick(rt, es, "pdel").Key)
				}
			default:
				m.Commit(gen.Pick(rt, []int{0, 1, 2, 64}, "plevel"))
			}
		}
		m.Commit(gen.Pick(rt, []int{0, 1, 2, 64}, "cplevel"))
		cpRoot := append([]byte(nil), m.T.Root()...)
		cpWeight := m.T.Weight()
		cpModel := map[string]refwmpt.Entry{}
		shared := map[string]int{}
		for k, v := range m.Model {
			cpModel[k] = v
			shared[string(v.Value)]++
		}
		entry := gen.Pick(rt, []string{"Rollback", "RollbackTrie", "RollbackTrie-without-SaveRoot"}, "entry")
		if entry != "RollbackTrie-without-SaveRoot" {
			m.Logf("SaveRoot")
			m.T.SaveRoot()
		}
		cpNodes := keysOf(db)
		tookSharedRecord := false
		for i := gen.Uniform(rt, 1, 4, "nbatch"); i > 0; i-- {
			if es := wmkit.Entries(m.Model); len(es) > 0 && gen.Chance(rt, 25, "bdel") {
				m.Delete(gen.Pick(rt, es, "bdelk").Key)
				continue
			}
			k, v := gen.Pick(rt, pool, "bk"), val("bv")
			if old, live := cpModel[string(k)]; (!live || !bytes.Equal(old.Value, v)) && shared[string(v)] > 0 {
				tookSharedRecord = true
			}
			m.Update(k, v)
		}
		m.Commit(gen.Pick(rt, []int{0, 1, 2, 64}, "blevel"))
		m.Logf("%s", entry)
		switch {
		case entry == "Rollback":
			m.T.Rollback()
		case cpWeight == 0:
			m.T.RollbackTrie(nil)
		default:
			m.T.RollbackTrie(wmpt.NewHashNode(append([]byte(nil), cpRoot...), cpWeight))
		}
		m.Model = cpModel
		m.Dirty = false
		if got := m.T.Root(); !bytes.Equal(got, cpRoot) {
			m.Fail("after %s: Root() = %x, checkpoint root %x", entry, got, cpRoot)
		}
		if got := m.T.Weight(); got != cpWeight {
			m.Fail("after %s: Weight() = %d, checkpoint weight %d", entry, got, cpWeight)
		}
		now := keysOf(db)
		for k := range cpNodes {
			if !now[k] {
				m.Fail("after %s: node %x of the checkpoint is no longer in storage", entry, k)
			}
		}
		w := refwmpt.WalkFrom(cpRoot, db.Getter())
		if len(w.Missing) > 0 || len(w.Problems) > 0 {
			m.Fail("after %s: checkpoint root does not resolve from storage: missing %v problems %v", entry, w.Missing, w.Problems)
		}
		wmkit.ObserveTrie(wmkit.Reopened(db, cpRoot, cpWeight), cpModel, nil, m.Fail, "after "+entry+": trie reopened at the checkpoint")
		ev.Case(m.History(), tookSharedRecord, "shared-records-no-collection", "entry:"+entry)
	})
}
