// C12 — a partial trie built from a path export evolves like the full trie.
package c12

import (
	"bytes"
	"crypto/sha256"
	"fmt"
	"testing"

	"github.com/0chain/common/core/util/wmpt"
	"pgregory.net/rapid"

	"verif/harness/internal/ev"
	"verif/harness/internal/gen"
	"verif/harness/internal/memkv"
	"verif/harness/internal/refwmpt"
	"verif/harness/internal/wmkit"
)

func TestMain(m *testing.M) {
	ev.SetMeta(ev.Meta{
		Property: "C12", Level: "exploration",
		Rule: "rapid draws a source trie (0..20 keys over prefix-sharing 32-byte keys; root shape forced across branch / shared-prefix short node / single entry / empty; in memory, committed at a drawn collapse level, reloaded from storage, or re-created from CopyRoot(level) over the same storage), a requested key set of size 0..25 (present keys, absent keys diverging at every depth, duplicates; both sides of the >10 parallel-collection threshold), and a follow-up sequence of updates, deletes and inserts restricted to requested keys, mirrored on the source and on the trie rebuilt from the export. " +
			"Oracle: Deserialize(GetPath(keys)) succeeds on a fresh storage-less trie; Root()/Weight() equal the source's and the independent reference's; after each mirrored operation both tries report the same success/failure and equal Root()/Weight(), which equal the reference for the updated model. " +
			"A separate large case exports every key of a 68 000-key trie (more than 2^17 exported nodes), 3000 and 9 keys of it, imports each and mirrors an update. The source is sometimes taken through further value updates after its hashes were computed. Non-trivial = >=11 requested keys on a non-branch root, or a delete of a requested key whose sibling was exported as an embedded short node or a hash reference, or an absent requested key inserted later; distinct = distinct (content, request, follow-ups).",
		Assumptions: []string{"the source is exported only in a clean state (GetPath reads hashes, which clears dirty flags)", "storage is internal/memkv"},
	})
	ev.Main(m)
}

func cloneKey(k []byte) []byte { return append([]byte(nil), k...) }

func run(rt *rapid.T) {
	rootKind := gen.Pick(rt, []string{"branch", "branch", "short", "short", "single", "empty"}, "rootkind")
	n := map[string]int{"single": 1, "empty": 0}[rootKind]
	if rootKind == "branch" || rootKind == "short" {
		n = gen.Uniform(rt, 2, 20, "nkeys")
	}
	pool := wmkit.GenKeyPool(rt, n+6) // the last few stay absent
	if rootKind == "short" {
		share := gen.Uniform(rt, 1, 4, "sharebytes")
		for _, k := range pool {
			copy(k[:share], pool[0][:share])
		}
		// keep them distinct
		seen := map[string]bool{}
		var uniq [][]byte
		for _, k := range pool {
			if !seen[string(k)] {
				seen[string(k)] = true
				uniq = append(uniq, k)
			}
		}
		pool = uniq
	}
	if n > len(pool) {
		n = len(pool)
	}
	present, absent := pool[:n], pool[n:]
	// some absent keys are near twins of a present one: they follow its path for 1..63 nibbles and leave it inside
	// whatever node holds the rest of that path
	twinOf := map[string][]byte{}
	if len(present) > 0 && rootKind != "short" {
		for i := range absent {
			if !gen.Chance(rt, 40, "absenttwin") {
				continue
			}
			base := gen.Pick(rt, present, "twinbase")
			tw := cloneKey(base)
			at := gen.Pick(rt, []int{1, 1, 2, 3, 8, 31, 62, 63}, "twinat")
			if at%2 == 0 {
				tw[at/2] ^= 0x10 << uint(gen.Uniform(rt, 0, 3, "twinbit"))
			} else {
				tw[at/2] ^= 0x01 << uint(gen.Uniform(rt, 0, 3, "twinbit"))
			}
			live := false
			for _, k := range pool {
				if bytes.Equal(k, tw) {
					live = true
				}
			}
			if !live {
				absent[i] = tw
				twinOf[string(tw)] = base
			}
		}
	}
	// the label says what the root really is
	switch {
	case len(present) == 0:
		rootKind = "empty"
	case len(present) == 1:
		rootKind = "single"
	default:
		rootKind = "short"
		for _, k := range present[1:] {
			if k[0]>>4 != present[0][0]>>4 {
				rootKind = "branch"
			}
		}
	}
	mode := gen.Pick(rt, []string{"memory", "committed", "committed", "reloaded", "copied-root"}, "mode")
	var db *memkv.Store
	if mode != "memory" {
		db = memkv.New()
	}
	var src *wmkit.Machine
	src = wmkit.New(db, func(f string, a ...any) {
		rt.Fatalf("%s\nsource history: %s", fmt.Sprintf(f, a...), src.History())
	})
	counter := 0
	for i, k := range present {
		src.Update(k, wmkit.GenValue(rt, i, &counter, true))
	}
	level := -1
	if mode != "memory" {
		level = gen.Pick(rt, []int{0, 1, 2, 3, 64}, "level")
		src.Commit(level)
	}
	// the source was reached by a history: updates of its keys after hashes were computed
	if len(present) > 0 && gen.Chance(rt, 40, "churn") {
		if mode == "memory" {
			_ = src.T.Root()
		}
		for i := gen.Uniform(rt, 1, 3, "nchurn"); i > 0; i-- {
			ki := gen.Uniform(rt, 0, len(present)-1, "churnki")
			if len(present) > 2 && gen.Chance(rt, 35, "churndel") {
				// a key goes (branches fold), the source is committed at the same level again, and only then exported
				src.Delete(present[ki])
				absent = append(absent, present[ki])
				present = append(append([][]byte{}, present[:ki]...), present[ki+1:]...)
				continue
			}
			src.Update(present[ki], wmkit.GenValue(rt, ki, &counter, true))
		}
		if mode != "memory" {
			src.Commit(level)
		}
	}
	if mode != "memory" {
		if mode == "reloaded" {
			src.Reload()
		}
		if mode == "copied-root" {
			// the other way to a collapsed source: a copy of the root that keeps the top levels and refers to the rest by hash
			cl := gen.Uniform(rt, 0, 4, "copylevel")
			src.Logf("source = New(CopyRoot(%d), storage)", cl)
			src.T = wmpt.New(src.T.CopyRoot(cl), db)
		}
	}
	// request
	nreq := gen.Pick(rt, []int{0, 1, 2, 5, 9, 10, 11, 12, 18, 25}, "nreq")
	var req [][]byte
	absentTwins := false
	for i := 0; i < nreq; i++ {
		switch {
		case len(present) > 0 && gen.Chance(rt, 65, "reqpresent"):
			req = append(req, cloneKey(gen.Pick(rt, present, "rp")))
		case len(absent) > 0:
			a := gen.Pick(rt, absent, "ra")
			req = append(req, cloneKey(a))
			if base := twinOf[string(a)]; base != nil && gen.Chance(rt, 70, "twinboth") {
				req = append(req, cloneKey(base))
				absentTwins = true
			}
		}
	}
	desc := func() string {
		return fmt.Sprintf("root=%s mode=%s level=%d keys=%d requested=%d; source history: %s", rootKind, mode, level, len(present), len(req), src.History())
	}
	data, err := src.T.GetPath(req)
	if err != nil {
		rt.Fatalf("GetPath: %v\n%s", err, desc())
	}
	part := wmpt.New(nil, nil)
	if gen.Chance(rt, 25, "usedreceiver") {
		// the receiving trie object has been used before: it already holds the reconstruction of another (non-empty) trie
		other := wmpt.New(nil, nil)
		ok := make([]byte, 32)
		ok[0], ok[31] = 0xab, 0x01
		_ = other.Update(ok, []byte("other-1"), 5)
		ok2 := append([]byte(nil), ok...)
		ok2[31] = 0x02
		_ = other.Update(ok2, []byte("other-2"), 7)
		od, err := other.GetPath([][]byte{ok})
		if err != nil || part.Deserialize(od) != nil {
			rt.Fatalf("HARNESS: preparing a used receiver: %v", err)
		}
		ev.Class("receiver-used-before", 1)
	} else if len(req) >= 2 && gen.Chance(rt, 25, "sameroot") {
		// the receiver already holds a narrower export of the SAME source state (same root hash), has taken a speculative
		// update whose root was never read, and now gets the full export
		if nd, err := src.T.GetPath(req[:1]); err == nil && part.Deserialize(nd) == nil {
			if _, live := src.Model[string(req[0])]; live && gen.Chance(rt, 60, "speculative") {
				_ = part.Update(req[0], []byte("speculative"), 3)
			}
			ev.Class("receiver-holds-narrower-export-of-the-same-state", 1)
		} else {
			part = wmpt.New(nil, nil)
		}
	} else if len(req) >= 1 && gen.Chance(rt, 25, "reloadsame") {
		// the receiver already holds this very export, has taken speculative changes (root never read, or read), and
		// is reset by loading the same bytes again
		if part.Deserialize(data) == nil {
			for i := gen.Uniform(rt, 1, 3, "nspec"); i > 0; i-- {
				k := gen.Pick(rt, req, "speckey")
				if _, live := src.Model[string(k)]; live && gen.Chance(rt, 50, "specdel") {
					_ = part.Update(k, nil, 0)
				} else {
					_ = part.Update(k, []byte{0xee, byte(i)}, 4)
				}
			}
			if gen.Chance(rt, 30, "specroot") {
				_ = part.Root()
			}
			ev.Class("receiver-reset-by-loading-the-same-export-again", 1)
		} else {
			part = wmpt.New(nil, nil)
		}
	}
	if err := part.Deserialize(data); err != nil {
		rt.Fatalf("Deserialize(GetPath): %v\n%s", err, desc())
	}
	compare := func(when string) {
		wantRoot, wantW := refwmpt.Root(wmkit.Entries(src.Model))
		sr, pr := src.T.Root(), part.Root()
		if !bytes.Equal(sr, wantRoot) || src.T.Weight() != wantW {
			rt.Fatalf("%s: source root %x weight %d, reference %x weight %d\n%s", when, sr, src.T.Weight(), wantRoot, wantW, desc())
		}
		if !bytes.Equal(pr, wantRoot) || part.Weight() != wantW {
			rt.Fatalf("%s: partial trie root %x weight %d, source/reference %x weight %d\n%s", when, pr, part.Weight(), wantRoot, wantW, desc())
		}
	}
	compare("after import")
	// follow-ups restricted to requested keys
	insertedAbsent, deletedPresent := false, false
	var follow []string
	if len(req) > 0 {
		for i := gen.Uniform(rt, 0, 8, "nfollow"); i > 0; i-- {
			k := gen.Pick(rt, req, "fk")
			_, live := src.Model[string(k)]
			var val []byte
			w := uint64(0)
			if live && gen.Chance(rt, 45, "fdel") {
				val = nil
				deletedPresent = true
			} else {
				val = wmkit.GenValue(rt, 99, &counter, true)
				w = wmkit.WeightOf(val)
				if !live {
					insertedAbsent = true
				}
			}
			follow = append(follow, fmt.Sprintf("%x..%x=%x", k[:2], k[30:], val))
			errS := src.T.Update(k, val, w)
			errP := part.Update(k, val, w)
			if (errS == nil) != (errP == nil) {
				rt.Fatalf("follow-ups %v: source says %v, partial trie says %v\n%s", follow, errS, errP, desc())
			}
			if errS == nil {
				if val == nil {
					delete(src.Model, string(k))
				} else {
					src.Model[string(k)] = refwmpt.Entry{Key: k, Value: val, Weight: w}
				}
			} else if live || val != nil {
				rt.Fatalf("follow-ups %v: source refused: %v\n%s", follow, errS, desc())
			}
			compare(fmt.Sprintf("after follow-ups %v", follow))
		}
	}
	nt := (len(req) >= 11 && rootKind != "branch") || deletedPresent || insertedAbsent
	cls := []string{"root:" + rootKind, "source:" + mode}
	if len(req) > 10 {
		cls = append(cls, "requested>10")
	} else {
		cls = append(cls, "requested<=10")
	}
	if absentTwins {
		cls = append(cls, "absent-near-twin-requested-with-its-present-sibling")
	}
	if deletedPresent {
		cls = append(cls, "delete-requested")
	}
	if insertedAbsent {
		cls = append(cls, "insert-absent-requested")
	}
	ev.Case(desc()+fmt.Sprint(follow, req), nt, cls...)
	if nt && ev.WantSample() {
		ev.Sample(map[string]any{"root": rootKind, "mode": mode, "collapse_level": level, "keys": len(present), "requested": len(req), "follow_ups": follow, "export_bytes": len(data)})
	}
}

func TestWitnesses(t *testing.T) {
	mk := func(n int) (*wmpt.WeightedMerkleTrie, [][]byte) {
		tr := wmpt.New(nil, nil)
		var keys [][]byte
		for i := 0; i < n; i++ {
			k := make([]byte, 32)
			k[31] = byte(i) // all keys share 62 nibbles: the root is a short node
			keys = append(keys, k)
			_ = tr.Update(k, []byte{byte(i), 1}, 1)
		}
		return tr, keys
	}
	ev.Witness(t, "C12-getpath-many-keys-non-branch-root", func() string {
		src, keys := mk(12)
		src.Root()
		data, err := src.GetPath(keys[:11])
		if err != nil {
			return err.Error()
		}
		part := wmpt.New(nil, nil)
		if err := part.Deserialize(data); err != nil {
			return err.Error()
		}
		if err := part.Update(keys[0], []byte{9, 9}, 2); err != nil {
			return "12 keys sharing a prefix, 11 requested: the trie rebuilt from the export cannot update a requested key: " + err.Error()
		}
		return ""
	})
	ev.Witness(t, "C12-getpath-stale-hash-of-collapsed-branch", func() string {
		src := wmpt.New(nil, nil)
		for i := 0; i < 3; i++ {
			k := make([]byte, 32)
			k[0] = byte(i) << 4
			_ = src.Update(k, []byte{byte(i), 1}, 1)
		}
		data, err := src.GetPath(nil) // hashes never read before
		if err != nil {
			return err.Error()
		}
		part := wmpt.New(nil, nil)
		if err := part.Deserialize(data); err != nil {
			return err.Error()
		}
		if !bytes.Equal(part.Root(), src.Root()) {
			return fmt.Sprintf("GetPath(no keys) on a trie whose hashes were never read exports root %x, the trie's root is %x", part.Root(), src.Root())
		}
		return ""
	})
}

func TestPartialTrie(t *testing.T) {
	ev.Rapid(t, 5000, 20000)
	rapid.Check(t, run)
}

// "Any number of requested keys": an export of more than 2^17 nodes (the default element limit of the CBOR library
// used for the export) must still rebuild, with every key requested and with small requests on the same big trie, and
// the same update applied to source and partial trie keeps them equal.
func TestLargeExport(t *testing.T) {
	ev.Guard(t, "TestLargeExport", func() {
		salt := ev.SeedFor("TestLargeExport")
		nkeys := 68000 + int(salt%977)
		if ev.Thorough() {
			nkeys += 30000
		}
		src := wmpt.New(nil, nil)
		keys := make([][]byte, nkeys)
		var total uint64
		weight := map[string]uint64{}
		for i := range keys {
			h := sha256.Sum256([]byte(fmt.Sprintf("large/%d/%d", salt, i)))
			keys[i] = h[:]
			w := uint64(1 + i%5)
			if err := src.Update(keys[i], []byte(fmt.Sprintf("v%d", i)), w); err != nil {
				t.Fatalf("HARNESS: %v", err)
			}
			weight[string(keys[i])] = w
			total += w
		}
		for round, req := range [][][]byte{keys, keys[:3000], keys[:9], keys[5000:5101], keys[6000:6201], keys[7000:7100], keys[8000:9001], keys[9100:9199]} {
			root := append([]byte(nil), src.Root()...)
			data, err := src.GetPath(req)
			if err != nil {
				t.Fatalf("GetPath of %d keys on a trie of %d: %v", len(req), nkeys, err)
			}
			part := wmpt.New(nil, nil)
			if err := part.Deserialize(data); err != nil {
				t.Fatalf("the export of %d requested keys of a trie with %d keys (%d bytes) cannot be imported: %v", len(req), nkeys, len(data), err)
			}
			if !bytes.Equal(part.Root(), root) || part.Weight() != total {
				t.Fatalf("export of %d keys of %d: partial trie root %x weight %d, source %x weight %d", len(req), nkeys, part.Root(), part.Weight(), root, total)
			}
			k := req[len(req)/2]
			if round >= 3 {
				k = req[len(req)-1] // the last key of the request
			}
			val := []byte(fmt.Sprintf("changed-%d", round))
			errP, errS := part.Update(k, val, 9), src.Update(k, val, 9)
			if errP != nil || errS != nil {
				t.Fatalf("export of %d keys of %d: update of a requested key: partial trie %v, source %v", len(req), nkeys, errP, errS)
			}
			total += 9 - weight[string(k)]
			weight[string(k)] = 9
			if !bytes.Equal(part.Root(), src.Root()) || part.Weight() != total || src.Weight() != total {
				t.Fatalf("export of %d keys of %d: after the same update partial trie root %x weight %d, source %x weight %d, expected weight %d", len(req), nkeys, part.Root(), part.Weight(), src.Root(), src.Weight(), total)
			}
			ev.Case(fmt.Sprintf("large-export %d of %d", len(req), nkeys), len(req) > 65536, "large-export", fmt.Sprintf("requested:%d", len(req)))
		}
	})
}

// The deepest shape a 32-byte key allows: a base key and, for each of its 64 nibbles, a key that leaves it exactly
// there - the base key's path is a branch on every level (65 nodes with the value). Exports for the base key, for its
// last-nibble twin and for all keys must load and evolve like the source.
func TestFullComb(t *testing.T) {
	ev.Guard(t, "TestFullComb", func() {
		salt := ev.SeedFor("TestFullComb")
		base := sha256.Sum256([]byte(fmt.Sprintf("comb/%d", salt)))
		keys := [][]byte{append([]byte(nil), base[:]...)}
		for i := 0; i < 64; i++ {
			k := append([]byte(nil), base[:]...)
			if i%2 == 0 {
				k[i/2] ^= 0x10 << (salt % 4)
			} else {
				k[i/2] ^= 0x01 << (salt % 4)
			}
			keys = append(keys, k)
		}
		for _, mode := range []string{"memory", "committed"} {
			var db *memkv.Store
			if mode == "committed" {
				db = memkv.New()
			}
			var src *wmkit.Machine
			src = wmkit.New(db, func(f string, a ...any) { t.Fatalf("%s (%s)", fmt.Sprintf(f, a...), mode) })
			for i, k := range keys {
				src.Update(k, []byte{byte(i), 0x51, byte(salt)})
			}
			if db != nil {
				src.Commit(int(salt % 3))
			}
			for name, req := range map[string][][]byte{"the base key": {keys[0]}, "the last-nibble twin": {keys[64]}, "base key and twin": {keys[0], keys[64]}, "all keys": keys} {
				_ = src.T.Root()
				data, err := src.T.GetPath(req)
				if err != nil {
					t.Fatalf("%s comb: GetPath(%s): %v", mode, name, err)
				}
				part := wmpt.New(nil, nil)
				if err := part.Deserialize(data); err != nil {
					t.Fatalf("%s comb of 65 keys: the export for %s cannot be imported: %v", mode, name, err)
				}
				if !bytes.Equal(part.Root(), src.T.Root()) || part.Weight() != src.T.Weight() {
					t.Fatalf("%s comb: export for %s: partial trie root %x weight %d, source %x weight %d", mode, name, part.Root(), part.Weight(), src.T.Root(), src.T.Weight())
				}
				v := []byte{0x77, byte(len(req)), byte(salt)}
				if err := part.Update(req[0], v, wmkit.WeightOf(v)); err != nil {
					t.Fatalf("%s comb: export for %s: update of a requested key on the partial trie: %v", mode, name, err)
				}
				src.Update(req[0], v)
				if db != nil {
					src.Commit(int(salt % 3))
				}
				if !bytes.Equal(part.Root(), src.T.Root()) || part.Weight() != src.T.Weight() {
					t.Fatalf("%s comb: export for %s: after the same update the partial trie has root %x weight %d, the source %x weight %d", mode, name, part.Root(), part.Weight(), src.T.Root(), src.T.Weight())
				}
				ev.Case(fmt.Sprintf("comb/%s/%s", mode, name), true, "full-comb-of-65-keys")
			}
		}
	})
}
